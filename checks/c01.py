"""C01 - every design vector decodes to a valid architecture instance (processors in fault-chosen modes vs. R-sem)."""
from checks import decode as dc
from checks.decode import (ENGINE, LEVEL, RUN_TIMEOUT_S, warmup, shrink_candidates, trace_size, signature, sample,
                           matches_known, COMPONENTS, ASSUMPTIONS)

PROPERTY = 'C01'
MODES = ['default', 'default', 'default', 'kill', 'kill', 'mem', 'fast']


def generate(seed, tier='quick', index=0):
    return dc.generate(PROPERTY, seed, tier, MODES, constraint_share=0.25, conn_share=0.08)


def execute(trace):
    return dc.execute(PROPERTY, trace)


RULE = ('Each run generates a DSG spec (selection choices, incompatibilities, design-variable nodes, in 8% of the runs a connection choice with conditional connectors and exclusions, '
        'no grouping connectors), builds a GraphProcessor in a drawn mode - '
        'default, complete analysis killed by the time limiter at a drawn delivery point (fast encoder), MemoryError in the '
        'complete analysis (fast encoder), fast '
        'encoder requested - and decodes the whole declared space (<= 300 vectors) or 120 sampled vectors, both create '
        'flags; every result must be final, feasible, have the node set of an R-sem-admissible closure and a valid '
        'connection set; errors are only accepted when R-sem admits nothing. evaluations = runs; non-trivial = >= 2 decodes '
        'on a graph with >= 2 admitted architectures; distinct = distinct (spec, mode).')
WALL_BUDGET = {'quick': 90.0, 'thorough': 700.0}


def jobs(tier, batch_seed):
    from simkit.driver import std_jobs
    return std_jobs([('generate', 200000 if tier == 'thorough' else 12000)], batch_seed)
