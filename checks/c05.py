"""C05 - decoding is a pure function of graph, fixed values and vector (processor sessions against a fresh twin)."""
from checks import session as ss
from checks.session import (ENGINE, LEVEL, RUN_TIMEOUT_S, warmup, shrink_candidates, trace_size, signature, sample,
                            matches_known)

PROPERTY = 'C05'
WEIGHTS = {'decode': 13, 'enumerate': 2, 'n_valid': 1, 'stats': 1, 'fix': 3, 'free': 2, 'mutate': 2, 'evaluate': 1,
           'pickle': 1, 'int_enum': 1}


def generate(seed, tier='quick', index=0):
    t = ss.generate(PROPERTY, seed, tier, WEIGHTS, n_ops=(6, 18), conn_share=0.2)
    # a quarter of the sessions run on the FAST selection-choice encoder (processor and twin alike): its decode path has
    # its own memoisation (imputation cache, exclusion set) that fix / free operations interact with
    import random
    r = random.Random(seed ^ 0x5EED)
    if r.random() < 0.25:
        t['encoder'] = 'fast'
    if r.random() < 0.12 and (t['spec'].get('dv') or t['spec'].get('metrics')):
        t['base_values'] = True  # the base graph (of processor and twin alike) stores values before the processor is built
    return t


def execute(trace):
    return ss.execute(PROPERTY, trace)


RULE = ('Each run generates a DSG spec (selection choices, incompatibilities, design-variable and metric nodes under '
        'permanent and conditional nodes, in 20% of the runs one or two connection choices) and a history of 6-18 operations over {decode(x, create), enumerate, n_valid, '
        'statistics, fix, free, mutate/evaluate a returned instance, pickle round trip, time-limited enumeration killed at '
        'a delivery point}; a quarter of the sessions use the FAST encoder for processor and twin; after every step a processor freshly built from the same spec (fresh node identities) with the '
        'same fixed values must answer identically, and every instance ever returned is re-observed at the end. '
        'evaluations = runs completed; a run is non-trivial if it contains >= 1 state-carrying step (fix, free, mutate, '
        'evaluate, pickle, interrupted enumeration) and >= 1 checked decode or enumeration; distinct = distinct (spec, ops).')
COMPONENTS = {'real': ['adsg_core GraphProcessor, hierarchy analyzers, DSG graph code, func_cache, evaluator, pickle'],
              'stub': ['run_timeout replaced by the virtual limiter (contract checked by C19 on the real limiter)',
                       'identity of id-less nodes (seeded)', 'seeds of random / np.random', 'private cache directory']}
ASSUMPTIONS = ['The twin is built from the same spec in the same run; enumerations are compared as sets of rows.',
               'Kill points of the virtual limiter are CPython delivery points inside adsg_core frames.',
               'Graphs are small (<= 12 named nodes, <= 4 selection choices, <= 2 design-variable nodes).']
WALL_BUDGET = {'quick': 70.0, 'thorough': 600.0}


def jobs(tier, batch_seed):
    from simkit.driver import std_jobs
    return std_jobs([('generate', 300000 if tier == 'thorough' else 20000)], batch_seed)
