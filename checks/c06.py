"""C06 - see checks/graphwalk.py (graph-level choice scheduler against R-sem)."""
from checks import graphwalk as gw
from checks.graphwalk import (ENGINE, LEVEL, RUN_TIMEOUT_S, warmup, shrink_candidates, trace_size, signature, sample,
                              matches_known)

PROPERTY = 'C06'
N_INCOMPAT_MAX = 3


def generate(seed, tier='quick', index=0):
    return gw.generate(PROPERTY, seed, tier, N_INCOMPAT_MAX)


def execute(trace):
    return gw.execute(PROPERTY, trace)


RULE = gw.RULE_TEXT.format(prop=PROPERTY, inc='no incompatibility constraints' if N_INCOMPAT_MAX == 0
                           else '0-3 incompatibility constraints on start, option, derived and shared nodes')
COMPONENTS = gw.COMPONENTS
ASSUMPTIONS = gw.ASSUMPTIONS
WALL_BUDGET = {'quick': 60.0, 'thorough': 600.0}


def jobs(tier, batch_seed):
    from simkit.driver import std_jobs
    return std_jobs([('generate', 400000 if tier == 'thorough' else 20000)], batch_seed)
