"""C08 - design space graphs behave as persistent values.  Engine E2, live-object histories.

A pool of live graph objects grows from one generated model (selection choices, a connection choice with grouping
connectors over conditional members, design-variable and metric nodes). Every object's observation is recorded when it
is created; after every operation all live objects are re-observed (in a seeded order, because reading one graph can be
what disturbs another) and must be unchanged unless the operation is documented as in-place on that very object."""
import copy
import random
import hashlib
import collections

from simkit import gen_dsg, hashorder, simenv
from simkit.rng import Streams
from checks.session import spec_features, shrink_spec

PROPERTY = 'C08'
ENGINE = 'E2'
LEVEL = 'exploration'
RUN_TIMEOUT_S = 300.0


def warmup():
    import os
    import adsg_core
    repo = os.path.dirname(os.path.dirname(os.path.abspath(adsg_core.__file__)))
    import adsg_core.optimization.graph_processor  # noqa
    import adsg_core.optimization.assign_enc.selector as sel
    from simkit import gen_settings
    simenv.setup(repo)
    simenv.install_limiter()
    with simenv.RunEnv(1):
        s, _ = gen_settings.build({'src': [{'conns': [1, 2], 'rep': False}],
                                   'tgt': [{'conns': [0, 1], 'rep': False}, {'conns': [0, 1], 'rep': False}],
                                   'excluded': [], 'patterns': None})
        sel.EncoderSelector(s).get_best_assignment_manager(cache=False)
    simenv.reset()
    return {}


class Viol(Exception):
    def __init__(self, clause, detail):
        super().__init__(clause)
        self.clause = clause
        self.detail = detail


def observe(g, deep=True):
    """Everything C08 says an existing graph object reports."""
    from adsg_core.graph.adsg_nodes import SelectionChoiceNode, ConnectionChoiceNode, ConnectorNode
    o = collections.OrderedDict()
    o['nodes'] = tuple(gen_dsg.observe_nodes(g))
    o['edges'] = tuple(map(tuple, gen_dsg.observe_edges(g)))
    o['feasible'] = _safe(lambda: bool(g.feasible))
    o['final'] = _safe(lambda: bool(g.final))
    o['next_choices'] = _safe(lambda: tuple(gen_dsg.label(c) for c in g.get_ordered_next_choice_nodes()))
    opts = []
    for n in sorted((n for n in g.graph.nodes if isinstance(n, SelectionChoiceNode)), key=gen_dsg.label):
        opts.append((gen_dsg.label(n), _safe(lambda: tuple(gen_dsg.label(x) for x in g.get_option_nodes(n)))))
    o['options'] = tuple(opts)
    conn = []
    if deep:
        for n in sorted((n for n in g.graph.nodes if isinstance(n, ConnectionChoiceNode)), key=gen_dsg.label):
            conn.append((gen_dsg.label(n), _safe(lambda: tuple(sorted(
                tuple(sorted((gen_dsg.label(a), gen_dsg.label(b)) for a, b in edges)) for edges in n.iter_conn_edges(g))))))
    o['conn_sets'] = tuple(conn)
    o['constraints'] = tuple((cc.type.name, tuple(gen_dsg.label(n) for n in cc.nodes),
                              None if cc.options is None else tuple(
                                  tuple(gen_dsg.label(v) if hasattr(v, 'str_context') else repr(v) for v in opts)
                                  for opts in cc.options))
                             for cc in g.get_choice_constraints())
    o['des_var_nodes'] = tuple(gen_dsg.label(n) for n in g.des_var_nodes)
    o['des_var_values'] = tuple(sorted((gen_dsg.label(n), repr(v)) for n, v in g.des_var_values.items()))
    o['metric_values'] = tuple(sorted((gen_dsg.label(n), repr(v)) for n, v in g.metric_values.items()))
    return o


def observe_degrees(g):
    """Connector degree constraints as this graph presents them (read right after the graph was produced / touched)."""
    from adsg_core.graph.adsg_nodes import ConnectorNode
    deg = []
    for n in sorted((n for n in g.graph.nodes if isinstance(n, ConnectorNode)), key=gen_dsg.label):
        deg.append((gen_dsg.label(n), None if n.deg_list is None else tuple(n.deg_list), n.deg_min, repr(n.deg_max),
                    bool(n.repeated_allowed)))
    return tuple(deg)


def _safe(f):
    try:
        return f()
    except Exception as e:
        return ('exc', type(e).__name__)


def diff(a, b):
    out = []
    for k in a:
        if a[k] != b[k]:
            x, y = a[k], b[k]
            if isinstance(x, tuple) and isinstance(y, tuple) and k in ('nodes', 'edges'):
                out.append(f'{k}: gone {sorted(set(x) - set(y), key=repr)[:3]} new {sorted(set(y) - set(x), key=repr)[:3]}')
            else:
                out.append(f'{k}: {str(x)[:160]} -> {str(y)[:160]}')
    return '; '.join(out)


class Live:
    def __init__(self, g, how, deep):
        self.g = g
        self.how = how
        self.obs = observe(g, deep)
        self.deg = observe_degrees(g)


def execute(trace):
    log = []
    stats = collections.Counter()
    res = {'status': 'ok'}
    hashorder.install(trace['ids_seed'])
    simenv.reset()
    cur = [None]
    try:
        with simenv.RunEnv(trace['env_seed']):
            try:
                _run(trace, log, stats, cur)
            except Viol as v:
                res = {'status': 'violation', 'clause': v.clause, 'detail': f'op {cur[0]}: {v.detail}'}
            except Exception as e:
                import traceback
                tb = traceback.extract_tb(e.__traceback__)
                inner = next((f for f in reversed(tb) if '/adsg_core/' in f.filename), None)
                if inner is None:
                    raise
                # an operation that fails on a generated graph is not a persistence violation: end of this history
                log.append(('op-raised', cur[0], type(e).__name__))
                stats['probe:op_raised:' + type(e).__name__] += 1
    finally:
        hashorder.uninstall()
        simenv.reset()
    h = hashlib.sha256()
    for e in log:
        h.update(repr(e).encode())
    h.update(repr(res.get('clause')).encode())
    res['digest'] = h.hexdigest()
    res['stats'] = dict(stats)
    res['trace'] = trace
    res['nontrivial_key'] = hashlib.sha256(repr((trace['spec'], trace['ops'])).encode()).hexdigest()[:20] \
        if stats.get('derive_ops', 0) >= 1 and stats.get('reobservations', 0) >= 2 else None
    res['interleaving'] = hashlib.sha256(repr([o[0] for o in trace['ops']]).encode()).hexdigest()[:16]
    return res


def _run(trace, log, stats, cur):
    from adsg_core.graph.adsg_nodes import SelectionChoiceNode, ConnectionChoiceNode
    from adsg_core.optimization.graph_processor import GraphProcessor
    spec = trace['spec']
    deep = bool(trace.get('deep', True))
    built = gen_dsg.build(spec)
    pool = [Live(built.dsg, 'base', deep)]
    proc = [None]
    sched = random.Random(trace['sched_seed'])
    has_group = any('group' in c for cc in spec.get('conn', []) for c in cc['tgt'] + cc['src'])
    stats['probe:grouping_connector'] = 1 if has_group else 0
    log.append(('base', pool[0].obs['nodes'], pool[0].obs['feasible']))

    def reobserve(allowed_changed, opdesc):
        order = list(range(len(pool)))
        sched.shuffle(order)
        for i in order:
            lv = pool[i]
            now = observe(lv.g, deep)
            stats['reobservations'] += 1
            if now != lv.obs:
                if i in allowed_changed:
                    lv.obs = now
                    continue
                changed = [k for k in now if now[k] != lv.obs[k]]
                raise Viol(f'C08/reobserve/{"+".join(changed)}',
                           f'after {opdesc}, object #{i} (created by {lv.how}) changed: {diff(lv.obs, now)}')

    for k, op in enumerate(trace['ops']):
        cur[0] = k
        kind = op[0]
        tgt = pool[op[1] % len(pool)]
        g = tgt.g
        new = None
        allowed = set()
        stats['op:' + kind] += 1
        if kind == 'copy':
            new = (g.copy(), f'copy of #{op[1] % len(pool)}')
        elif kind == 'apply_sel':
            active = [c for c in g.get_ordered_next_choice_nodes() if isinstance(c, SelectionChoiceNode)]
            if not active or not g.feasible:
                continue
            c = active[op[2] % len(active)]
            if c not in g.graph.nodes:
                continue
            opts = g.get_option_nodes(c)
            if not opts:
                continue
            o = opts[op[3] % len(opts)]
            new = (g.get_for_apply_selection_choice(c, o), f'apply {gen_dsg.label(c)}={gen_dsg.label(o)} on #{op[1] % len(pool)}')
        elif kind == 'apply_conn':
            active = [c for c in g.get_ordered_next_choice_nodes() if isinstance(c, ConnectionChoiceNode)]
            if not active or not g.feasible:
                continue
            c = active[op[2] % len(active)]
            sets = list(c.iter_conn_edges(g))
            if not sets:
                continue
            e = sets[op[3] % len(sets)]
            new = (g.get_for_apply_connection_choice(c, e), f'apply connection {gen_dsg.label(c)} set {op[3] % len(sets)} on '
                                                           f'#{op[1] % len(pool)}')
        elif kind == 'constrain':
            # "constraining choices on a copy": LINKED between two not yet constrained selection choices with equal option
            # counts (or two discrete design-variable nodes with equal option counts), or PERMUTATION / UNORDERED /
            # UNORDERED_NOREPL over 2-3 not yet constrained selection choices
            from adsg_core.graph.adsg_basic import ChoiceConstraintType
            from adsg_core.graph.adsg_nodes import DesignVariableNode
            cp = g.copy()
            taken = {n for cc in cp.get_choice_constraints() for n in cc.nodes}
            sels = sorted((n for n in cp.graph.nodes if isinstance(n, SelectionChoiceNode) and n not in taken),
                          key=gen_dsg.label)
            by_n = {}
            for n in sels:
                by_n.setdefault(len(cp.get_option_nodes(n)), []).append(n)
            pairs = [v[:2] for k_, v in sorted(by_n.items()) if len(v) >= 2 and k_ >= 2]
            dvs = sorted((n for n in cp.graph.nodes if isinstance(n, DesignVariableNode) and n.is_discrete
                          and n not in taken), key=gen_dsg.label)
            by_d = {}
            for n in dvs:
                by_d.setdefault(len(n.options), []).append(n)
            pairs += [v[:2] for k_, v in sorted(by_d.items()) if len(v) >= 2]
            ctype = [ChoiceConstraintType.LINKED, ChoiceConstraintType.LINKED, ChoiceConstraintType.PERMUTATION,
                     ChoiceConstraintType.UNORDERED, ChoiceConstraintType.UNORDERED_NOREPL][op[3] % 5]
            if ctype is ChoiceConstraintType.LINKED:
                # every other time: two selection choices with *different* option counts (the longer one then has
                # options without a partner in the shorter one)
                uneq = [[a, b] for i_, a in enumerate(sels) for b in sels[i_ + 1:]
                        if len(cp.get_option_nodes(a)) != len(cp.get_option_nodes(b))
                        and min(len(cp.get_option_nodes(a)), len(cp.get_option_nodes(b))) >= 2]
                if uneq and (op[2] // 8) % 2 == 1:
                    group = uneq[op[2] % len(uneq)]
                    if (op[2] // 16) % 2:
                        group = group[::-1]
                    stats['probe:linked_unequal_counts'] += 1
                elif pairs:
                    group = pairs[op[2] % len(pairs)]
                else:
                    continue
                remove = False
            else:
                # index constraints over 2-3 free selection choices with any option counts - possibly unsatisfiable
                # (three two-option choices cannot be pairwise different): the choices then lose options or all of them
                if len(sels) < 2:
                    continue
                k = min(len(sels), 2 + op[2] % 2)
                at = (op[2] // 4) % (len(sels) - k + 1)
                group = sels[at:at + k]
                remove = (op[2] // 2) % 2 == 0
            try:
                res = cp.constrain_choices(ctype, group, remove_infeasible_choices=remove)
            except (ValueError, RuntimeError) as e:
                stats['probe:constraint_rejected:' + type(e).__name__] += 1
                continue
            new = (res, f'copy of #{op[1] % len(pool)} with {ctype.name}({", ".join(gen_dsg.label(n) for n in group)}; '
                        f'remove_infeasible_choices={remove})')
            stats['probe:constraint_added'] += 1
            stats['probe:constraint_added:' + ctype.name] += 1
        elif kind == 'confirmed':
            new = (g.get_confirmed_graph(), f'get_confirmed_graph of #{op[1] % len(pool)}')
        elif kind == 'set_values':
            cp = g.copy()
            for n in cp.metric_nodes:
                cp.set_metric_value(n, float(op[2]))
            for n in cp.des_var_nodes:
                cp.set_des_var_value(n, n.bounds[0] if n.bounds is not None else op[3] % len(n.options))
            new = (cp, f'copy of #{op[1] % len(pool)} with stored values')
        elif kind == 'set_values_inplace':
            for n in g.metric_nodes:
                g.set_metric_value(n, float(op[2]))
            for n in g.des_var_nodes:
                g.set_des_var_value(n, n.bounds[1] if n.bounds is not None else op[3] % len(n.options))
            allowed = {op[1] % len(pool)}
        elif kind == 'export':
            g.export_dot(return_dot=True) if op[2] % 2 else g.export_gml()
        elif kind == 'init_choices':
            new = (g.initialize_choices(), f'initialize_choices of #{op[1] % len(pool)}')
        elif kind == 'decode':
            if proc[0] is None:
                proc[0] = GraphProcessor(pool[0].g)
            dvs = proc[0].des_vars
            r = random.Random(op[2])
            x = [r.randrange(d.n_opts) if d.is_discrete else r.uniform(*d.bounds) for d in dvs]
            gi, _, _ = proc[0].get_graph(x)
            new = (gi, f'decode {x}')
        elif kind == 'read':
            observe(g, deep)
        if new is not None and any(lv.g is new[0] for lv in pool):
            # the deriving operation handed back an object that is already live: it is kept as a *separate handle*, so an
            # in-place operation through the new handle that changes what the old handle reports is seen as what it is
            stats['probe:operation_returned_existing_object'] += 1
        if new is not None:
            stats['derive_ops'] += 1
            if len(pool) < trace.get('max_pool', 7):
                pool.append(Live(new[0], new[1], deep))
                log.append(('new', k, kind, pool[-1].obs['nodes'], pool[-1].obs['feasible']))
            else:
                log.append(('derived-not-kept', k, kind))
        else:
            log.append(('op', k, kind))
        reobserve(allowed, f'op {k} {kind} ({new[1] if new else "on #%d" % (op[1] % len(pool))})')
        # degree constraints: what a graph's connectors report must still be what they reported when it was produced
        if trace.get('check_degrees', True):
            for i, lv in enumerate(pool):
                now = observe_degrees(lv.g)
                if now != lv.deg:
                    ch = [(a, b) for a, b in zip(lv.deg, now) if a != b][:2]
                    raise Viol('C08/reobserve/connector-degrees',
                               f'after op {k} {kind}, connectors of object #{i} (created by {lv.how}) report other degree '
                               f'constraints: {ch}')


def generate(seed, tier='quick', index=0):
    s = Streams(seed)
    rng = s('gen')
    spec = gen_dsg.gen_tree_spec(rng, n_incompat_max=rng.choice([0, 0, 2]), max_choices=rng.choice([1, 2, 3]))
    spec = gen_dsg.clean_incompat(spec)
    spec = gen_dsg.add_dv_metrics(rng, spec)
    if rng.random() < 0.35:
        # constraint-friendly: further independent two-option choices at the start node (pairs to link)
        for c in range(rng.choice([2, 4])):
            names = [f'N{200 + 10 * c + j}' for j in range(2)]
            spec['nodes'] += names
            spec['sel'].append([f'K{c}', spec['start'][0], names])
    if rng.random() < 0.6:
        spec = gen_dsg.add_conn_choice(rng, spec, p_group=rng.choice([0.0, 0.5, 0.9]), max_side=2)
    orng = s('ops')
    kinds = ['copy', 'apply_sel', 'apply_sel', 'apply_sel', 'apply_conn', 'apply_conn', 'confirmed', 'set_values',
             'set_values_inplace', 'export', 'decode', 'decode', 'read', 'constrain', 'constrain']
    ops = [[orng.choice(kinds), orng.randrange(64), orng.randrange(64), orng.randrange(64)]
           for _ in range(orng.randint(3, 9))]
    return {'property': PROPERTY, 'engine': ENGINE, 'seed': seed, 'spec': spec, 'ops': ops,
            'ids_seed': s.int_seed('ids'), 'env_seed': s.int_seed('env'), 'sched_seed': s.int_seed('sched'),
            'deep': True, 'max_pool': 7, 'check_degrees': True}


def shrink_candidates(trace):
    t = trace
    n = len(t['ops'])
    size = n // 2
    while size >= 1:
        for start in range(0, n, size):
            c = copy.deepcopy(t)
            del c['ops'][start:start + size]
            yield c
        size //= 2
    for i, op in enumerate(t['ops']):
        if any(op[1:]):
            c = copy.deepcopy(t)
            c['ops'][i] = [op[0], op[1] % 8, op[2] % 8, op[3] % 8]
            if c['ops'][i] != op:
                yield c
    from checks.decode import shrink_candidates as dshrink
    for c in dshrink({**t, 'mode': {'kind': 'default', 'frac': 0.0}}):
        c = {k: v for k, v in c.items() if k != 'mode'}
        yield c


def trace_size(trace):
    from checks.decode import trace_size as ds
    return ds({**trace, 'mode': {'kind': 'default', 'frac': 0.0}}) + 40 * len(trace['ops']) \
        + sum(1 for o in trace['ops'] if any(v >= 8 for v in o[1:]))


def signature(trace, result):
    kinds = sorted({o[0] for o in trace['ops']})
    feats = spec_features(trace['spec'])
    if any('group' in c for cc in trace['spec'].get('conn', []) for c in cc['tgt'] + cc['src']):
        feats.append('grouping-connector')
    return {'clause': result['clause'], 'op_kinds': kinds, 'needs': feats}


def matches_known(known_sig, sig):
    return (known_sig['clause'] == sig['clause'] and set(known_sig.get('needs', [])) <= set(sig.get('needs', []))
            and set(known_sig.get('op_kinds', [])) <= set(sig.get('op_kinds', [])))


def sample(trace):
    return {'spec': trace['spec'], 'ops': trace['ops']}


RULE = ('Each run generates a model (selection choices, optionally a connection choice with grouping connectors over '
        'conditional members and exclusions, design-variable and metric nodes) and a history of 3-9 operations over a pool of '
        'live graph objects: copy, apply a selection choice, apply a connection set, get_confirmed_graph, store values on a '
        'copy / in place, constrain choices on a copy, export, processor decodes (instances join the pool), pure reads. After every '
        'operation all live objects are re-observed in a seeded order (nodes, edges, feasible, final, next choices, option '
        'lists, valid connection sets, connector degree constraints, stored values). evaluations = runs; non-trivial = >= 1 '
        'deriving operation and >= 2 re-observations; distinct = distinct (spec, ops).')
COMPONENTS = {'real': ['adsg_core.graph (DSG copy / apply / confirmed graph / exports), connector grouping nodes, '
                       'ConnectionChoiceNode.iter_conn_edges with the matrix generator and its disk cache, GraphProcessor '
                       'decodes'],
              'stub': ['identity of id-less nodes (seeded)', 'private cache directory, seeded randomness',
                       'run_timeout -> virtual limiter (never kills here)']}
ASSUMPTIONS = ['Only set_*_value on the object itself is treated as a documented in-place operation.',
               'An operation that raises on a generated graph ends the history without verdict (not a persistence matter).',
               'Small models; pool of at most 7 live objects.']
WALL_BUDGET = {'quick': 80.0, 'thorough': 600.0}


def jobs(tier, batch_seed):
    from simkit.driver import std_jobs
    return std_jobs([('generate', 150000 if tier == 'thorough' else 5000)], batch_seed)
