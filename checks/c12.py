"""C12 - encoder selection always succeeds; disk caches are transparent.  Engine E2, assign_enc level.

A run is a sequence of *phases*; every phase executes in its own process forked from the pristine image (a true restart:
nothing in memory survives), all phases of a run share one private cache directory (the durable state). Time-limited
calls go through the virtual limiter, which kills them at drawn / enumerated delivery points or makes a candidate reject.
Oracles: R-conn (brute force) for the returned coding, cold twin phases for cache transparency."""
import os
import copy
import random
import hashlib
import itertools
import collections

import numpy as np

from simkit import simenv, gen_settings, ref_conn, runner
from simkit.rng import Streams

PROPERTY = 'C12'
ENGINE = 'E2'
LEVEL = 'fault_enumeration'
RUN_TIMEOUT_S = 2400.0
REPO = None


def warmup():
    global REPO
    import adsg_core
    REPO = os.path.dirname(os.path.dirname(os.path.abspath(adsg_core.__file__)))
    import adsg_core.optimization.assign_enc.selector as sel
    import adsg_core.optimization.graph_processor  # noqa
    simenv.setup(REPO)
    simenv.install_limiter()
    # numba functions are compiled once here, in the parent, so that every forked phase starts warm
    with simenv.RunEnv(1):
        s, _ = gen_settings.build({'src': [{'conns': [1, 2], 'rep': False}], 'tgt': [{'conns': [0, 1], 'rep': False},
                                                                                      {'conns': [0, 1], 'rep': False}],
                                   'excluded': [], 'patterns': None})
        sel.EncoderSelector(s).get_best_assignment_manager(cache=False)
    simenv.reset()
    return {'interrupt_type_injected': 'SystemError (probed from the real limiter by C19 / E1)'}


CORE_CLAUSES = ('decode-raises', 'invalid-matrix', 'variables-for-single-set')


class Probe(Exception):
    def __init__(self, kind, detail):
        super().__init__(kind)
        self.kind = kind
        self.detail = detail


class Viol(Exception):
    def __init__(self, clause, detail):
        super().__init__(clause)
        self.clause = clause
        self.detail = detail


EXC = {}


def _exc(name):
    if not EXC:
        from adsg_core.optimization.assign_enc.patterns.encoder import InvalidPatternEncoder
        from adsg_core.optimization.assign_enc.encoding import DetectedHighImpRatio
        EXC.update(InvalidPatternEncoder=InvalidPatternEncoder, DetectedHighImpRatio=DetectedHighImpRatio,
                   MemoryError=MemoryError, TimeoutError=TimeoutError)
    return EXC[name]


def make_plan(plan_spec):
    """plan_spec: {'mode': 'none'|'all_first'|'map', 'map': {call index: k | ['raise', name]}, 'frac': {...}}"""
    mode = plan_spec.get('mode', 'none')
    if mode == 'none':
        return None
    if mode == 'all_first':
        return lambda idx, site: 1
    m = {int(k): v for k, v in plan_spec.get('map', {}).items()}

    def plan(idx, site):
        a = m.get(idx)
        if a is None:
            return None
        if isinstance(a, list):
            if '_instantiate_manager' not in site:
                return None  # only candidate encoders "reject"
            cls = _exc(a[1])
            if a[1] == 'DetectedHighImpRatio':
                return ('raise', lambda msg: cls(None, 1e9))
            return ('raise', cls)
        return int(a)
    return plan


# ---------------------------------------------------------------------------------------------------------------------
# observation and validation of a manager

def _vectors(n_opts, rng, limit=1500):
    space = 1
    for n in n_opts:
        space *= n
    if space <= limit:
        return [list(v) for v in itertools.product(*[range(n) for n in n_opts])], True
    return [[rng.randrange(n) for n in n_opts] for _ in range(300)], False


def obs_manager(mgr, existences, vec_seed):
    """(encoder name, n_opts, per pattern: decode table) - raises nothing itself; exceptions are recorded as entries."""
    rng = random.Random(vec_seed)
    n_opts = [int(dv.n_opts) for dv in mgr.design_vars]
    vecs, exhaustive = _vectors(n_opts, rng)
    tables = []
    for ex in existences:
        rows = []
        for v in vecs:
            try:
                xi, act, mat = mgr.get_matrix(list(v), existence=ex)
                rows.append((tuple(v), tuple(int(a) for a in xi), tuple(bool(a) for a in act),
                             tuple(tuple(int(c) for c in r) for r in np.asarray(mat))))
            except Exception as e:
                rows.append((tuple(v), 'exc', type(e).__name__, str(e)[:120]))
        tables.append(rows)
    try:
        adv = mgr.get_all_design_vectors()
        all_dv = [sorted(tuple(int(c) for c in r) for r in np.asarray(adv[ex])) if ex in adv else None for ex in existences]
    except Exception as e:
        all_dv = ('exc', type(e).__name__, str(e)[:120])
    return {'encoder': str(mgr.encoder), 'n_opts': n_opts, 'tables': tables, 'exhaustive': exhaustive, 'all_dv': all_dv}


def validate(obs, spec, mgr_extra=None):
    """Clause (b): the coding works, judged against R-conn."""
    try:
        return _validate(obs, spec)
    except Viol as v:
        name = obs['encoder']
        kind = v.clause.split('/', 1)[1]
        if kind not in CORE_CLAUSES:
            # a law of C10 (not claimed by this family of technique): recorded as a probe, never reported
            raise Probe(kind, v.detail)
        fam = 'pattern-encoder' if 'Pattern Encoder' in name else ('lazy-encoder' if name.startswith('Lazy') else
                                                                   'eager-encoder')
        raise Viol(f'{v.clause}[{fam}]', v.detail)


def _validate(obs, spec):
    pats = ref_conn.all_patterns(spec)
    n_opts = obs['n_opts']
    n_sets_total = 0
    used = [set() for _ in n_opts]
    any_valid = False
    for pi, pat in enumerate(pats):
        valid = ref_conn.matrices(spec, pat)
        vset = set(valid)
        n_sets_total = max(n_sets_total, len(valid))
        if not valid:
            continue
        any_valid = True
        hit = set()
        by_corr = {}
        for row in obs['tables'][pi]:
            if row[1] == 'exc':
                raise Viol('C12/decode-raises', f'pattern {pat}: vector {row[0]} -> {row[2]}: {row[3]} (encoder '
                                                f'{obs["encoder"]})')
            v, xi, act, mat = row
            if mat not in vset:
                raise Viol('C12/invalid-matrix', f'pattern {pat}: vector {v} decodes to {mat}, not a valid connection set '
                                                 f'(encoder {obs["encoder"]})')
            if len(xi) != len(n_opts) or any(not (0 <= a < n) for a, n in zip(xi, n_opts)):
                raise Viol('C12/corrected-out-of-range', f'pattern {pat}: vector {v} corrected to {xi}, declared {n_opts}')
            if any((not a) and x != 0 for a, x in zip(act, xi)):
                raise Viol('C12/inactive-not-canonical', f'pattern {pat}: vector {v} -> {xi} active {act}')
            hit.add(mat)
            key = (xi, act)
            if key in by_corr and by_corr[key] != mat:
                raise Viol('C12/not-injective', f'pattern {pat}: corrected vector {xi} denotes both {by_corr[key]} and {mat}')
            by_corr[key] = mat
            for k, (a, x) in enumerate(zip(act, xi)):
                if a:
                    used[k].add(x)
        table = {r[0]: r for r in obs['tables'][pi]}
        for row in obs['tables'][pi]:
            v, xi, act, mat = row
            again = table.get(tuple(xi))
            if again is not None and (again[1] != xi or again[3] != mat):
                raise Viol('C12/not-fixed-point', f'pattern {pat}: {v} -> {xi} -> {again[1]} (encoder {obs["encoder"]})')
        if obs['exhaustive']:
            missing = sorted(vset - hit)
            if missing:
                raise Viol('C12/not-onto', f'pattern {pat}: valid connection sets {missing[:3]} ({len(missing)} of '
                                           f'{len(vset)}) are not the decode of any vector (encoder {obs["encoder"]})')
            if isinstance(obs['all_dv'], tuple):
                raise Viol('C12/all-design-vectors-raises', str(obs['all_dv']))
            listed = obs['all_dv'][pi]
            want = sorted({tuple(x if a else -1 for x, a in zip(xi, act)) for (xi, act) in by_corr})
            if listed is not None and sorted(set(listed)) != want:
                raise Viol('C12/all-design-vectors-differ', f'pattern {pat}: listed {sorted(set(listed))[:6]} but the '
                                                            f'corrected vectors are {want[:6]} (encoder {obs["encoder"]})')
    total_sets = sum(len(ref_conn.matrices(spec, p)) for p in pats)
    max_sets = max((len(ref_conn.matrices(spec, p)) for p in pats), default=0)
    if max_sets <= 1 and n_opts:
        raise Viol('C12/variables-for-single-set', f'at most one connection set per pattern but variables {n_opts} declared '
                                                   f'(encoder {obs["encoder"]})')
    if any_valid and obs['exhaustive']:
        for k, u in enumerate(used):
            if len(u) < 2:
                raise Viol('C12/variable-with-one-value', f'variable {k} of {n_opts} only ever takes {sorted(u)} '
                                                          f'(encoder {obs["encoder"]})')
    return {'total_sets': total_sets, 'max_sets': max_sets}


# ---------------------------------------------------------------------------------------------------------------------
# phases (each runs in its own process forked from the pristine image)

class _FaultyFile:
    """File object handed to the library's cache code by the injected `open`: a write beyond `after` bytes stores the part
    that still fits and raises ENOSPC (disk full / quota); a read beyond `after` bytes raises EIO."""

    def __init__(self, f, fault, state):
        self._f, self._fault, self._state, self._n = f, fault, state, 0

    def _fire(self, code, what):
        import errno
        self._state['fired'] = True
        raise OSError(getattr(errno, code), f'{what} (injected)')

    def write(self, b):
        if self._fault['kind'] == 'enospc':
            room = self._fault['after'] - self._n
            if len(b) > room:
                self._f.write(bytes(b[:max(0, room)]))
                self._f.flush()
                self._n += max(0, room)
                self._fire('ENOSPC', 'No space left on device')
        self._n += len(b)
        return self._f.write(b)

    def _rd(self, data):
        self._n += len(data)
        if self._fault['kind'] == 'eio' and self._n > self._fault['after']:
            self._fire('EIO', 'Input/output error')
        return data

    def read(self, n=-1):
        return self._rd(self._f.read(n))

    def readline(self, n=-1):
        return self._rd(self._f.readline(n))

    def close(self):
        self._f.close()

    def flush(self):
        self._f.flush()

    def __enter__(self):
        return self

    def __exit__(self, *a):
        self._f.close()
        return False


def _faulty_open(fault, state):
    import builtins

    def _open(path, mode='r', *a, **k):
        writing = any(c in mode for c in 'wax+')
        if fault['kind'] == 'open_fail':
            if state['seen'] == fault.get('nth', 0):
                state['seen'] += 1
                state['fired'] = True
                import errno
                raise OSError(errno.EMFILE, 'Too many open files (injected)', str(path))
            state['seen'] += 1
            return builtins.open(path, mode, *a, **k)
        if (fault['kind'] == 'enospc') != writing:
            return builtins.open(path, mode, *a, **k)
        state['seen'] += 1
        if state['seen'] - 1 != fault.get('nth', 0):
            return builtins.open(path, mode, *a, **k)
        return _FaultyFile(builtins.open(path, mode, *a, **k), fault, state)
    return _open


def _io_of(op):
    return next((e['io'] for e in op if isinstance(e, dict) and 'io' in e), None)


def _phase(arg):
    """Executes the ops of one phase; returns list of (op index, outcome record)."""
    trace, phase_idx, cache_dir = arg
    os.environ['XDG_CACHE_HOME'] = cache_dir
    import adsg_core.optimization.assign_enc.selector as sel
    from adsg_core.optimization.assign_enc.matrix import AggregateAssignmentMatrixGenerator
    from adsg_core.optimization.assign_enc.cache import reset_caches
    ph = trace['phases'][phase_idx]
    random.seed(trace['env_seed'])
    np.random.seed(trace['env_seed'] & 0x7FFFFFFF)
    out = []
    for oi, op in enumerate(ph['ops']):
        kind = op[0]
        rec = {'op': op}
        simenv.reset(make_plan(op[3]) if kind == 'select' else None)
        io, io_state = _io_of(op), {'seen': 0, 'fired': False}
        if io is not None:  # the library's cache code of this operation meets a failing disk
            import adsg_core.optimization.assign_enc.matrix as _mx
            _mx.open = sel.open = _faulty_open(io, io_state)
        try:
            if kind == 'select':
                spec = trace['settings'][op[1]]
                settings, exist = gen_settings.build(spec)
                np.random.seed((trace['env_seed'] + 17 * op[1]) & 0x7FFFFFFF)
                s = sel.EncoderSelector(settings)
                mgr = s.get_best_assignment_manager(cache=op[2], limit_time=op[4] if len(op) > 4 else True)
                rec['calls'] = list(simenv.State.calls)
                if not hasattr(mgr, 'design_vars') or not hasattr(mgr, 'get_matrix'):
                    rec['not_a_manager'] = repr(mgr)[:120]
                else:
                    rec['obs'] = obs_manager(mgr, exist, trace['env_seed'])
            elif kind == 'reselect':
                # history on ONE selector object: select, configure other imputers (public attributes), reset_cache(),
                # select again through the cache path - that must be a new selection for the current configuration,
                # i.e. what a fresh selector with the same configuration computes without any cache
                from adsg_core.optimization.assign_enc.encoder_registry import LazyFirstImputer, FirstImputer
                spec = trace['settings'][op[1]]
                settings, exist = gen_settings.build(spec)
                seed_ = (trace['env_seed'] + 17 * op[1]) & 0x7FFFFFFF
                np.random.seed(seed_)
                s = sel.EncoderSelector(settings)
                s.get_best_assignment_manager(cache=True)
                s.lazy_imputer, s.eager_imputer = LazyFirstImputer, FirstImputer
                s.reset_cache()
                np.random.seed(seed_)
                m2 = s.get_best_assignment_manager(cache=True)
                s3 = sel.EncoderSelector(settings)
                s3.lazy_imputer, s3.eager_imputer = LazyFirstImputer, FirstImputer
                np.random.seed(seed_)
                m3 = s3.get_best_assignment_manager(cache=False)
                rec['calls'] = list(simenv.State.calls)
                if not hasattr(m2, 'design_vars') or not hasattr(m3, 'design_vars'):
                    rec['not_a_manager'] = repr((m2, m3))[:120]
                else:
                    rec['obs'] = obs_manager(m2, exist, trace['env_seed'])
                    rec['obs_ref'] = obs_manager(m3, exist, trace['env_seed'])
                s.reset_cache()  # the entry written for the other imputers must not leak into later operations
            elif kind == 'agg':
                spec = trace['settings'][op[1]]
                settings, exist = gen_settings.build(spec)
                gen = AggregateAssignmentMatrixGenerator(settings)
                agg = gen.get_agg_matrix(cache=op[2])
                rec['agg'] = [sorted(tuple(tuple(int(c) for c in r) for r in m) for m in np.asarray(agg[ex]))
                              if ex in agg else None for ex in exist]
                rec['count'] = int(gen.count_all_matrices(max_by_existence=False))
            elif kind == 'iter':
                # the filtered public iteration: matrices of one existence pattern only
                spec = trace['settings'][op[1]]
                settings, exist = gen_settings.build(spec)
                gen = AggregateAssignmentMatrixGenerator(settings)
                k = op[2] % len(exist)
                rec['pattern'] = k
                rec['iter'] = sorted(tuple(tuple(int(c) for c in r) for r in np.asarray(m))
                                     for m, _ in gen.iter_matrices(existence=exist[k]))
            elif kind in ('proc_first_use', 'proc_use'):
                rec.update(_proc_op(trace, op))
            elif kind == 'reset_sel':
                settings, _ = gen_settings.build(trace['settings'][op[1]])
                sel.EncoderSelector(settings).reset_cache()
            elif kind == 'reset_mat':
                settings, _ = gen_settings.build(trace['settings'][op[1]])
                AggregateAssignmentMatrixGenerator(settings).reset_agg_matrix_cache()
            elif kind == 'reset_all':
                reset_caches()
            elif kind == 'keys':
                keys = []
                for sp in trace['settings']:
                    st, _ = gen_settings.build(sp)
                    keys.append(st.get_cache_key())
                rec['keys'] = keys
            rec['status'] = 'ok'
        except Exception as e:
            import traceback
            tb = traceback.extract_tb(e.__traceback__)
            inner = next((f for f in reversed(tb) if '/adsg_core/' in f.filename), None)
            rec['status'] = 'exc'
            rec['exc'] = (type(e).__name__, str(e)[:200],
                          f'{inner.filename.split("/adsg_core/")[-1]}:{inner.name}' if inner else 'harness')
            rec['calls'] = list(simenv.State.calls)
            if inner is None:
                rec['harness_tb'] = traceback.format_exc()[-1500:]
        finally:
            simenv.reset()
            if io is not None:
                del _mx.open, sel.open
                rec['io_fired'] = io_state['fired']
        out.append(rec)
    return {'status': 'ok', 'records': out}


def _proc_op(trace, op):
    """The optimizer bridge's pattern at the process level: a processor whose very first use is a time-limited
    get_all_discrete_x (which lazily triggers the hierarchy analysis, the encoder selection and the cache writes inside
    the limited call), killed at delivery point k ('proc_first_use'); and the plain use of a fresh processor
    ('proc_use': variables + decode table)."""
    from simkit import gen_dsg, hashorder
    from adsg_core.optimization.graph_processor import GraphProcessor
    from checks.session import obs_dvs, obs_x, obs_instance
    spec = trace['graphs'][op[1]]
    out = {}
    hashorder.install(trace['env_seed'] + 3)
    try:
        built = gen_dsg.build(spec)
        p = GraphProcessor(built.dsg)
        if op[0] == 'proc_first_use':
            k = op[2]
            simenv.reset(lambda idx, site: (k if (idx == 0 and k is not None) else None))
            if op[3]:
                simenv.State.record = []
            try:
                simenv.vlimiter(1.0, lambda: p.get_all_discrete_x())
                out['first_use'] = 'ok'
            except TimeoutError:
                out['first_use'] = 'killed'
            out['points'] = simenv.State.calls[-1][2] if simenv.State.calls else 0
            if op[3]:
                out['record'] = list(simenv.State.record)
        else:
            dvs = p.des_vars
            out['dvs'] = obs_dvs(dvs)
            import itertools
            opts = [list(range(d.n_opts)) if d.is_discrete else [d.bounds[0], d.bounds[1]] for d in dvs]
            space = 1
            for o in opts:
                space *= len(o)
            rng = random.Random(trace['env_seed'])
            vecs = [list(v) for v in itertools.product(*opts)] if space <= 64 else \
                [[rng.choice(o) for o in opts] for _ in range(40)]
            rows = []
            for x in vecs:
                g, xi, act = p.get_graph(list(x))
                rows.append((tuple(x), obs_x(xi), tuple(bool(a) for a in act), obs_instance(g)))
            out['table'] = rows
    finally:
        hashorder.uninstall()
    return out


def _files(cache_dir):
    res = []
    for root, _, files in os.walk(cache_dir):
        for f in sorted(files):
            p = os.path.join(root, f)
            res.append((os.path.relpath(p, cache_dir), os.path.getsize(p)))
    return sorted(res)


def _apply_disk_fault(cache_dir, fault, stats):
    """Out-of-contract faults between phases: tear / lose / flip cache files (what a crash or a bad disk leaves)."""
    files = _files(cache_dir)
    if not files:
        return None
    name, size = files[fault['file'] % len(files)]
    path = os.path.join(cache_dir, name)
    kind = fault['kind']
    if kind == 'lose':
        os.remove(path)
    elif kind == 'tear':
        n = int(size * fault['frac'])
        with open(path, 'r+b') as f:
            f.truncate(n)
    elif kind == 'flip' and size > 0:
        pos = int((size - 1) * fault['frac'])
        with open(path, 'r+b') as f:
            f.seek(pos)
            b = f.read(1)
            f.seek(pos)
            f.write(bytes([b[0] ^ 0x5A]))
    stats['fault:disk_' + kind] += 1
    return (kind, name)


def execute(trace):
    log = []
    stats = collections.Counter()
    res = {'status': 'ok'}
    env = simenv.RunEnv(trace['env_seed'])
    try:
        with env:
            cold_dir = os.path.join(env.dir, 'cold')
            os.makedirs(cold_dir)
            main_dir = os.path.join(env.dir, 'main')
            os.makedirs(main_dir)
            tainted = False  # an out-of-contract disk fault happened: explicit errors are accepted from then on
            for pi, ph in enumerate(trace['phases']):
                for fault in ph.get('disk_faults', []):
                    f = _apply_disk_fault(main_dir, fault, stats)
                    if f:
                        tainted = True
                        log.append(('disk-fault',) + f)
                r = runner.fork_call(_phase, (trace, pi, main_dir), 300.0)
                if r.get('status') != 'ok':
                    raise RuntimeError('phase failed: ' + str(r.get('detail'))[:500])
                stats['phases'] += 1
                for oi, rec in enumerate(r['records']):
                    _judge(trace, pi, oi, rec, log, stats, tainted, cold_dir, env)
    except Viol as v:
        res = {'status': 'violation', 'clause': v.clause, 'detail': v.detail}
    h = hashlib.sha256()
    for e in log:
        h.update(repr(e).encode())
    h.update(repr(res.get('clause')).encode())
    res['digest'] = h.hexdigest()
    res['stats'] = dict(stats)
    res['trace'] = trace
    nt = stats.get('fault:limiter_kill', 0) + stats.get('fault:limiter_kill_in_first_use', 0) + stats.get('fault:candidate_rejected', 0) + stats.get('probe:cache_hit', 0) \
        + sum(v for k, v in stats.items() if k.startswith(('fault:disk_', 'fault:io_')))
    res['nontrivial_key'] = hashlib.sha256(repr((trace['settings'], trace.get('graphs'), trace['phases'])).encode()).hexdigest()[:20] \
        if nt else None
    res['interleaving'] = hashlib.sha256(repr([[o[0] for o in p['ops']] for p in trace['phases']]).encode()).hexdigest()[:16]
    return res


def _judge(trace, pi, oi, rec, log, stats, tainted, cold_dir, env):
    op = rec['op']
    kind = op[0]
    where = f'phase {pi} op {oi} {op[:3]}'
    stats['op:' + kind] += 1
    if rec.get('harness_tb'):
        raise RuntimeError('harness exception inside phase: ' + rec['harness_tb'])
    for c in rec.get('calls', []):
        if c[3] == 'killed':
            stats['fault:limiter_kill'] += 1
            stats['kill_site:' + c[1]] += 1
        elif c[3].startswith('injected:'):
            stats['fault:candidate_rejected'] += 1
    if rec.get('io_fired'):
        stats['fault:io_' + _io_of(op)['kind']] += 1
        if rec['status'] == 'exc' and rec['exc'][0] == 'OSError' and '(injected)' in rec['exc'][1]:
            # the disk error surfaced as itself: an explicit error. Nothing else is relaxed - in particular later
            # operations and later processes must find the cache directory in a usable state
            log.append((kind, pi, oi, 'io-error-surfaced'))
            stats['probe:io_error_surfaced'] += 1
            return
    if kind == 'select':
        spec = trace['settings'][op[1]]
        log.append(('select', pi, oi, rec['status'], rec.get('obs', {}).get('encoder'), rec.get('exc', (None,))[0],
                    tuple((c[1], c[3]) for c in rec.get('calls', []))))
        if rec['status'] == 'exc':
            if tainted and rec['exc'][0] in ('EOFError', 'UnpicklingError', 'OSError', 'FileNotFoundError', 'ValueError',
                                             'KeyError', 'AttributeError', 'IndexError', 'TypeError', 'MemoryError',
                                             'ModuleNotFoundError', 'ImportError', 'OverflowError', 'RuntimeError',
                                             'UnicodeDecodeError', 'AssertionError', 'SystemError'):
                stats['probe:explicit_error_after_disk_fault'] += 1
                return
            msg = '-'.join(''.join(ch for ch in rec['exc'][1] if ch.isalpha() or ch == ' ').split()[:4])
            inst = [c for c in rec['calls'] if '_instantiate_manager' in c[1]]
            if inst and all(c[3] != 'ok' for c in inst) and all(
                    c[3] == 'killed' or c[3].startswith('injected:') or c[3] in ('raised:InvalidPatternEncoder',
                                                                                 'raised:DetectedHighImpRatio')
                    for c in inst):
                msg += ':no-candidate-left'
            raise Viol(f'C12/select-raises/{rec["exc"][0]}:{msg}@{rec["exc"][2]}',
                       f'{where}: settings {spec}: {rec["exc"]}; limited calls {[(c[1], c[3]) for c in rec["calls"]]}')
        if 'not_a_manager' in rec:
            raise Viol('C12/select-returns-no-manager', f'{where}: settings {spec}: get_best_assignment_manager returned '
                                                        f'{rec["not_a_manager"]}' + (' from the cache' if not rec['calls'] else ''))
        stats['selections'] += 1
        if not rec['calls']:
            stats['probe:cache_hit'] += 1
        stats['encoder:' + rec['obs']['encoder']] += 1
        try:
            validate(rec['obs'], spec)
        except Probe as pr:
            stats['probe:c10_law_' + pr.kind] += 1
        # transparency: the same selection in a pristine process with an empty cache directory, caching off, same
        # fault plan, same seeds
        if op[2] and not tainted and not _io_before(trace, pi, oi):
            src_phase = _producer(trace, pi, oi)
            prod_plan = trace['phases'][src_phase[0]]['ops'][src_phase[1]][3] if src_phase is not None else {}
            has_kill = prod_plan.get('mode') == 'all_first' or any(not isinstance(a, list)
                                                                   for a in prod_plan.get('map', {}).values())
            # a kill point is a count of delivery points, and cached and uncached code paths have different counts, so
            # "the same fault plan" is only well defined for plans without kills (rejections are per call index)
            if src_phase is not None and not has_kill:
                cold = _cold_select(trace, src_phase, cold_dir)
                stats['cold_twins'] += 1
                if cold['status'] != 'ok':
                    raise Viol('C12/cold-twin-fails', f'{where}: the same selection without any cache raised {cold.get("exc")}')
                a, b = rec['obs'], cold['obs']
                if (a['encoder'], a['n_opts'], a['tables'], a['all_dv']) != (b['encoder'], b['n_opts'], b['tables'], b['all_dv']):
                    raise Viol('C12/cache-not-transparent',
                               f'{where}: through the cache: {a["encoder"]} {a["n_opts"]}; computed without cache under the '
                               f'same fault plan: {b["encoder"]} {b["n_opts"]}; tables equal: {a["tables"] == b["tables"]}')
    elif kind == 'reselect':
        spec = trace['settings'][op[1]]
        log.append(('reselect', pi, oi, rec['status'], rec.get('obs', {}).get('encoder'), rec.get('obs_ref', {}).get('encoder')))
        if rec['status'] == 'exc':
            # the selection defects of the unchanged tree (no candidate left etc.) are judged under `select`
            stats['probe:reselect_raised:' + rec['exc'][0]] += 1
            return
        if 'not_a_manager' in rec:
            raise Viol('C12/select-returns-no-manager', f'{where}: settings {spec}: {rec["not_a_manager"]}')
        a, b = rec['obs'], rec['obs_ref']
        if (a['encoder'], a['n_opts'], a['tables']) != (b['encoder'], b['n_opts'], b['tables']):
            raise Viol('C12/stale-after-reset', f'{where}: after reconfiguring the imputers and reset_cache() the selector '
                                                f'returned {a["encoder"]} {a["n_opts"]}, a fresh selector with the same '
                                                f'configuration computes {b["encoder"]} {b["n_opts"]} (tables equal: '
                                                f'{a["tables"] == b["tables"]}); settings {spec}')
        stats['reselect_checked'] += 1
    elif kind == 'agg':
        spec = trace['settings'][op[1]]
        log.append(('agg', pi, oi, rec['status'], rec.get('count')))
        if rec['status'] == 'exc':
            if tainted:
                stats['probe:explicit_error_after_disk_fault'] += 1
                return
            raise Viol(f'C12/agg-matrix-raises/{rec["exc"][0]}@{rec["exc"][2]}', f'{where}: settings {spec}: {rec["exc"]}')
        pats = ref_conn.all_patterns(spec)
        total = 0
        for p, got in zip(pats, rec['agg']):
            want = ref_conn.matrices(spec, p)
            total += len(want)
            if got is None or sorted(got) != [tuple(map(tuple, m)) for m in want]:
                raise Viol('C12/agg-matrix-wrong' + ('-after-disk-fault' if tainted else ''),
                           f'{where}: pattern {p}: {0 if got is None else len(got)} matrices, reference {len(want)}; '
                           f'settings {spec}')
        if rec['count'] != total:
            raise Viol('C12/count-wrong', f'{where}: count_all_matrices = {rec["count"]}, reference {total}')
        stats['agg_checked'] += 1
    elif kind == 'proc_first_use':
        log.append(('proc_first_use', pi, oi, rec['status'], rec.get('first_use'), op[2]))
        if rec['status'] == 'exc':
            # the graph itself cannot be processed (empty design space, library defect): nothing to learn about caches
            stats['probe:proc_first_use_failed:' + rec['exc'][0]] += 1
            return
        if rec.get('first_use') == 'killed':
            stats['fault:limiter_kill_in_first_use'] += 1
    elif kind == 'proc_use':
        log.append(('proc_use', pi, oi, rec['status'], len(rec.get('table') or [])))
        cold = _cold_proc(trace, op, cold_dir)
        stats['cold_twins'] += 1
        if cold['status'] == 'exc':
            stats['probe:proc_use_cold_failed:' + cold['exc'][0]] += 1
            if rec['status'] != 'exc' or rec['exc'][0] != cold['exc'][0]:
                raise Viol('C12/processor-differs-from-cold', f'{where}: cold processor fails with {cold["exc"][:2]} but through '
                                                              f'the cache directory: {rec.get("exc", "ok")}')
            return
        if rec['status'] == 'exc':
            msg = '-'.join(''.join(ch for ch in rec['exc'][1] if ch.isalpha() or ch == ' ').split()[:4])
            raise Viol(f'C12/cache-poisoned/{rec["exc"][0]}:{msg}@{rec["exc"][2]}',
                       f'{where}: a fresh processor on the cache directory left behind by earlier (time-limited) use fails: '
                       f'{rec["exc"]}; files {_files(env.dir + "/main")[:6]}')
        if (rec['dvs'], rec['table']) != (cold['dvs'], cold['table']):
            raise Viol('C12/processor-differs-from-cold', f'{where}: variables / decode table through the cache directory '
                                                          f'differ from a processor on an empty cache directory')
        stats['proc_tables_compared'] += 1
    elif kind == 'iter':
        spec = trace['settings'][op[1]]
        log.append(('iter', pi, oi, rec['status'], rec.get('pattern')))
        if rec['status'] == 'exc':
            if tainted:
                stats['probe:explicit_error_after_disk_fault'] += 1
                return
            raise Viol(f'C12/iter-matrices-raises/{rec["exc"][0]}@{rec["exc"][2]}', f'{where}: settings {spec}: {rec["exc"]}')
        pat = ref_conn.all_patterns(spec)[rec['pattern']]
        want = [tuple(map(tuple, m)) for m in ref_conn.matrices(spec, pat)]
        if sorted(rec['iter']) != want:
            raise Viol('C12/iter-matrices-wrong' + ('-after-disk-fault' if tainted else ''),
                       f'{where}: pattern {pat}: {len(rec["iter"])} matrices, reference {len(want)}; settings {spec}')
        stats['iter_checked'] += 1
    elif kind == 'keys':
        keys = rec['keys']
        log.append(('keys', tuple(keys)))
        for i in range(len(keys)):
            for j in range(i + 1, len(keys)):
                if keys[i] == keys[j] and _sem(trace['settings'][i]) != _sem(trace['settings'][j]):
                    raise Viol('C12/cache-key-collision', f'settings {trace["settings"][i]} and {trace["settings"][j]} share '
                                                          f'cache key {keys[i]} although they denote different connection '
                                                          f'sets')
        stats['key_pairs'] += len(keys) * (len(keys) - 1) // 2
    else:
        log.append((kind, pi, oi, rec['status']))
        if rec['status'] == 'exc' and not tainted:
            raise Viol(f'C12/{kind}-raises/{rec["exc"][0]}', f'{where}: {rec["exc"]}')


def _io_before(trace, pi, oi):
    """An operation up to (pi, oi) ran with a failing disk: which selection wrote the cache entry is then not known
    statically (a failed write stores nothing), so the transparency comparison has no well-defined twin."""
    return any(_io_of(o) is not None for a, p in enumerate(trace['phases']) for b, o in enumerate(p['ops'])
               if (a, b) <= (pi, oi))


def _sem(spec):
    """What a settings spec denotes: per existence pattern (addressed by index) its valid connection matrices. Two specs
    are different settings exactly if this differs (an implementation may normalise equivalent spellings to one key)."""
    return [(tuple(p['src']), tuple(p['tgt']), tuple(ref_conn.matrices(spec, p))) for p in ref_conn.all_patterns(spec)]


def _producer(trace, pi, oi):
    """The select op that computed what the selection cache holds at (pi, oi): scanning forward, the first selection of
    these settings after the last reset of their selection cache computes and writes; a later selection only replaces the
    entry if it runs with cache=False (it then recomputes and writes); selections with cache=True are hits."""
    op = trace['phases'][pi]['ops'][oi]
    flat = [(a, b, o) for a, p in enumerate(trace['phases']) for b, o in enumerate(p['ops'])]
    idx = flat.index((pi, oi, op))
    prod = None
    for a, b, o in flat[:idx + 1]:
        if o[0] == 'reset_all' or (o[0] in ('reset_sel', 'reselect') and o[1] == op[1]):
            prod = None  # (a reselect operation ends with a reset of the selection cache of its settings)
        elif o[0] == 'select' and o[1] == op[1]:
            if prod is None or not o[2]:
                prod = (a, b)
    return prod


def _cold_proc_phase(arg):
    trace, op, cold_dir = arg
    t = dict(trace, phases=[{'ops': [op]}])
    return _phase((t, 0, cold_dir))


def _cold_proc(trace, op, cold_dir):
    import shutil
    for f in os.listdir(cold_dir):
        shutil.rmtree(os.path.join(cold_dir, f), ignore_errors=True)
    r = runner.fork_call(_cold_proc_phase, (trace, op, cold_dir), 300.0)
    if r.get('status') != 'ok':
        raise RuntimeError('cold phase failed: ' + str(r.get('detail'))[:500])
    return r['records'][0]


def _cold_phase(arg):
    trace, src, cold_dir = arg
    t = {'settings': trace['settings'], 'env_seed': trace['env_seed'],
         'phases': [{'ops': [trace['phases'][src[0]]['ops'][src[1]][:2] + [False] + trace['phases'][src[0]]['ops'][src[1]][3:5]]}]}
    return _phase((t, 0, cold_dir))


def _cold_select(trace, src, cold_dir):
    import shutil
    for f in os.listdir(cold_dir):
        shutil.rmtree(os.path.join(cold_dir, f), ignore_errors=True)
    r = runner.fork_call(_cold_phase, (trace, src, cold_dir), 300.0)
    if r.get('status') != 'ok':
        raise RuntimeError('cold phase failed: ' + str(r.get('detail'))[:500])
    return r['records'][0]


# ---------------------------------------------------------------------------------------------------------------------
# generation

def _gen_plan(rng, mode=None):
    mode = mode or rng.choices(['none', 'map', 'all_first'], [0.35, 0.55, 0.10])[0]
    if mode != 'map':
        return {'mode': mode}
    m = {}
    for _ in range(rng.randint(1, 6)):
        idx = rng.randrange(0, 30)
        if rng.random() < 0.6:
            m[str(idx)] = rng.choice([1, 2, 3, 5, 8, 13, 21, 34, 55, 89, 144, 233, 377])
        else:
            m[str(idx)] = ['raise', rng.choice(['InvalidPatternEncoder', 'DetectedHighImpRatio', 'MemoryError',
                                                'TimeoutError'])]
    return {'mode': 'map', 'map': m}


def generate(seed, tier='quick', index=0):
    s = Streams(seed)
    rng = s('gen')
    base = gen_settings.gen_settings_spec(rng, degenerate=rng.random() < 0.15)
    if rng.random() < 0.06:
        base = gen_settings.gen_parallel_spec(rng)
    settings = [base]
    if rng.random() < 0.6:
        v = gen_settings.variant(rng, base)
        if base.get('patterns') and len(base['patterns']) >= 2 and rng.random() < 0.5:
            v = dict(base, patterns=list(reversed(base['patterns'])))  # same patterns, other order
        settings.append(v)
    if rng.random() < 0.3:
        settings.append(gen_settings.gen_settings_spec(rng))
    orng = s('ops')
    phases = []
    for p in range(orng.randint(1, 3)):
        ops = []
        for _ in range(orng.randint(1, 4)):
            k = orng.choices(['select', 'agg', 'iter', 'reset_sel', 'reset_mat', 'reset_all', 'keys', 'reselect'],
                             [10, 3, 2, 1, 1, 0.5, 1, 1])[0]
            si = orng.randrange(len(settings))
            if k == 'select':
                ops.append(['select', si, orng.random() < 0.8, _gen_plan(orng), orng.random() < 0.9])
            elif k == 'agg':
                ops.append(['agg', si, orng.random() < 0.7])
            elif k == 'iter':
                ops.append(['iter', si, orng.randrange(8)])
            elif k in ('reset_sel', 'reset_mat', 'reselect'):
                ops.append([k, si])
            else:
                ops.append([k])
        ph = {'ops': ops, 'disk_faults': []}
        phases.append(ph)
    return {'property': PROPERTY, 'engine': ENGINE, 'seed': seed, 'settings': settings, 'phases': phases,
            'env_seed': s.int_seed('env'), 'config': 'in-contract'}


def generate_keys(seed, tier='quick', index=0):
    """Cache-key scenario: a family of up to 8 settings grown from one base by single-attribute edits (incl. explicit vs
    unset parallel limit, permuted patterns, transposes); all keys are compared, then members of the family fill and
    read the matrix caches one after the other (second phase: another process on the same directory)."""
    s = Streams(seed)
    rng = s('gen')
    par = rng.random() < 0.3
    base = gen_settings.gen_parallel_spec(rng) if par else gen_settings.gen_settings_spec(rng, p_patterns=0.8)
    settings = [base]
    for k in range(rng.randint(3, 7)):
        v = gen_settings.variant(rng, rng.choice(settings), kinds=['max_par'] if par and k < 2 else None)
        if v not in settings:
            settings.append(v)
    orng = s('ops')
    phases = []
    for p in range(2):
        ops = [['keys']] if p == 0 else []
        for _ in range(orng.randint(2, 5)):
            si = orng.randrange(len(settings))
            ops.append(orng.choice([['agg', si, True], ['agg', si, True], ['iter', si, orng.randrange(8)]]))
        phases.append({'ops': ops, 'disk_faults': []})
    return {'property': PROPERTY, 'engine': ENGINE, 'seed': seed, 'settings': settings, 'phases': phases,
            'env_seed': s.int_seed('env'), 'config': 'in-contract'}


def generate_io(seed, tier='quick', index=0):
    """Failing disk inside operations: one or two cache-touching operations of a session run with an `open` that fails
    (EMFILE), a write that hits a full disk after n bytes (ENOSPC, the part that fits is on disk) or a read that fails
    after n bytes (EIO). The faulted operation may raise that OSError; everything afterwards - the same process, and a
    fresh process on the same directory - is judged as if nothing had happened (a failed write must not poison the
    cache)."""
    t = generate(seed, tier, index)
    s = Streams(seed)
    frng = s('io')
    cands = [(pi, oi) for pi, p in enumerate(t['phases']) for oi, op in enumerate(p['ops']) if op[0] in ('select', 'agg', 'iter')]
    if not cands:
        t['phases'][0]['ops'].append(['select', 0, True, {'mode': 'none'}, True])
        cands = [(0, len(t['phases'][0]['ops']) - 1)]
    touched = set()
    for pi, oi in frng.sample(cands, min(len(cands), frng.randint(1, 2))):
        op = t['phases'][pi]['ops'][oi]
        if op[0] in ('select', 'agg'):
            op[2] = True  # through the cache
        kind = frng.choice(['enospc', 'enospc', 'enospc', 'eio', 'open_fail'])
        op.append({'io': {'kind': kind, 'nth': frng.choice([0, 0, 0, 1, 2]),
                          'after': frng.choice([0, 1, 7, 40, 100, 300, 1000, 4000])}})
        touched.add(op[1])
    # afterwards, in a fresh process: the settings whose operations met the failing disk are used through the cache
    t['phases'].append({'ops': [o for si in sorted(touched) for o in (['select', si, True, {'mode': 'none'}, True],
                                                                      ['agg', si, True], ['iter', si, 0])],
                        'disk_faults': []})
    t['config'] = 'io-faults'
    return t


def generate_disk(seed, tier='quick', index=0):
    """Out-of-contract configuration: cache files are torn / lost / flipped between phases (run separately so that the
    relaxation - an explicit error is accepted - never hides an ordinary bug)."""
    t = generate(seed, tier, index)
    s = Streams(seed)
    frng = s('faults')
    if len(t['phases']) < 2:
        t['phases'].append(copy.deepcopy(t['phases'][0]))
    for ph in t['phases'][1:]:
        for _ in range(frng.randint(1, 2)):
            ph['disk_faults'].append({'kind': frng.choice(['tear', 'tear', 'lose']), 'file': frng.randrange(100),
                                      'frac': round(frng.random(), 3)})
    t['config'] = 'out-of-contract'
    return t


def generate_enum(seed, tier='quick', index=0):
    """Fault enumeration: every delivery point of one limited call of a cold selection, followed by a second, unlimited
    selection with the cache on in a fresh process (bounded liveness: it must succeed and be valid)."""
    s = Streams(seed)
    rng = s('gen')
    spec = gen_settings.gen_settings_spec(rng, max_n=2 if tier == 'quick' else 3)
    # which limited call is enumerated: site (count / candidate instantiation / distance correlation) x which of the calls
    # at that site (first, middle, last) x matrix cache cold or warm (warm: the aggregate matrix comes from disk, so work
    # that the cold path does before any limited call - e.g. deriving the effective settings per existence pattern -
    # first happens inside a limited call)
    combos = [(1, 'first', True), (0, 'middle', False), (2, 'middle', False), (1, 'middle', False), (1, 'last', True),
              (0, 'first', True), (1, 'first', False), (2, 'first', True), (1, 'middle', True), (0, 'last', False)]
    site, which, warm = combos[index % len(combos)]
    if warm and not spec.get('patterns'):
        spec = gen_settings.gen_settings_spec(rng, max_n=2 if tier == 'quick' else 3, p_patterns=1.0)
    return {'property': PROPERTY, 'engine': ENGINE, 'seed': seed, 'settings': [spec], 'phases': [],
            'env_seed': s.int_seed('env'), 'config': 'enum',
            'enum': {'site': site, 'which': which, 'warm_matrix': warm, 'stride_min_points': 24 if tier == 'quick' else 60}}


WRITE_FUNCS = ('_write_to_cache', 'get_best_assignment_manager', 'iter_n_sources_targets', 'get_agg_matrix',
               '_load_from_cache', 'get_cache_path', 'reset_cache', 'reset_agg_matrix_cache')


def generate_bridge(seed, tier='quick', index=0):
    """Crash consistency of the library's own caches under the library's own limiter: first use of a processor for a
    graph with a connection choice happens inside a time-limited call that is killed at delivery point k; afterwards a
    fresh process must still get a working processor from the same cache directory, equal to one on an empty directory."""
    from simkit import gen_dsg
    s = Streams(seed)
    rng = s('gen')
    spec = gen_dsg.gen_selection_spec(rng, n_incompat_max=0, p_cycle=0.0, p_shared=0.0, acyclic=True, tree_options=True,
                                      max_choices=rng.choice([0, 1, 2]), size=rng.randint(2, 6))
    spec = gen_dsg.add_conn_choice(rng, spec, p_group=0.0, max_side=2)
    return {'property': PROPERTY, 'engine': ENGINE, 'seed': seed, 'settings': [], 'graphs': [spec], 'phases': [],
            'env_seed': s.int_seed('env'), 'config': 'bridge',
            'bridge': {'n_random': 6 if tier == 'quick' else 30, 'all_write_points': True}}


def _execute_bridge(trace):
    base = copy.deepcopy(trace)
    base['config'] = 'in-contract'
    base['phases'] = [{'ops': [['proc_first_use', 0, None, True]], 'disk_faults': []}]
    with simenv.RunEnv(trace['env_seed']) as env:
        r = runner.fork_call(_phase, (base, 0, env.dir), 300.0)
    if r.get('status') != 'ok':
        raise RuntimeError('dry phase failed: ' + str(r.get('detail'))[:400])
    rec = r['records'][0]
    agg = collections.Counter()
    digests, keys = [], []
    first = None
    sub = 1
    if rec['status'] == 'ok' and rec.get('points'):
        K = rec['points']
        record = rec.get('record') or []
        wpts = sorted({n for n, fn in record if fn in WRITE_FUNCS})
        near = sorted({m for n in wpts for m in (n - 1, n, n + 1) if 1 <= m <= K})
        rng = random.Random(trace['env_seed'])
        pts = sorted(set(near) | {rng.randint(1, K) for _ in range(trace['bridge']['n_random'])} | {1, K})
        cap = 30 if trace['bridge']['n_random'] <= 6 else 100
        if len(pts) > cap:
            keep = [p for p in near if p in pts][:cap // 2]  # prefer the points in and around the cache functions
            rest = [p for p in pts if p not in keep]
            pts = sorted(set(keep) | set(rng.sample(rest, min(len(rest), cap - len(keep)))))
        agg['bridge_points_existing'] = K
        agg['bridge_points_in_cache_functions'] = len(wpts)
        for k in pts:
            t = copy.deepcopy(base)
            t['phases'] = [{'ops': [['proc_first_use', 0, k, False]], 'disk_faults': []},
                           {'ops': [['proc_use', 0]], 'disk_faults': []}]
            rr = _execute_plain(t)
            sub += 1
            for kk, v in rr['stats'].items():
                agg[kk] += v
            digests.append(rr['digest'])
            if rr['nontrivial_key']:
                keys.append(rr['nontrivial_key'])
            if rr['status'] == 'violation' and first is None:
                first = rr
        agg['bridge_points_covered'] = len(pts)
    else:
        agg['probe:bridge_graph_unusable'] += 1
    res = {'status': 'ok', 'digest': hashlib.sha256(''.join(digests).encode()).hexdigest(), 'stats': dict(agg),
           'nontrivial_key': keys, 'sub_runs': sub, 'trace': trace, 'interleaving': None}
    if first is not None:
        res.update(status='violation', clause=first['clause'], detail=first['detail'], trace=first['trace'])
    return res


def _execute_enum(trace):
    """Dry selection to learn the limited calls and their delivery-point counts; then one 2-phase run per kill point."""
    base = copy.deepcopy(trace)
    warm = bool(trace['enum'].get('warm_matrix'))
    pre = [{'ops': [['agg', 0, True]], 'disk_faults': []}] if warm else []
    base['phases'] = pre + [{'ops': [['select', 0, warm, {'mode': 'none'}, True]], 'disk_faults': []}]
    base['config'] = 'in-contract'
    with simenv.RunEnv(trace['env_seed']) as env:
        for pi in range(len(base['phases'])):
            r = runner.fork_call(_phase, (base, pi, env.dir), 300.0)
            if r.get('status') != 'ok':
                raise RuntimeError('dry phase failed: ' + str(r.get('detail'))[:400])
    rec = r['records'][0]
    calls = rec.get('calls', [])
    kinds = ['_get_n_mat', '_instantiate_manager', '_get_dist_corr']
    want = kinds[trace['enum']['site'] % 3]
    cand = [c for c in calls if want in c[1] or (want == '_get_n_mat' and '<lambda>' in c[1])]
    agg = collections.Counter()
    digests = []
    first = None
    keys = []
    sub = 0
    if cand:
        c = cand[{'first': 0, 'last': len(cand) - 1}.get(trace['enum'].get('which'), len(cand) // 2)]
        K = c[2]
        step = max(1, K // trace['enum']['stride_min_points'])
        points = sorted(set(list(range(1, min(K, 8) + 1)) + list(range(1, K + 1, step)) + list(range(max(1, K - 7), K + 1))))
        for k in points:
            t = copy.deepcopy(base)
            t['phases'] = pre + [{'ops': [['select', 0, True, {'mode': 'map', 'map': {str(c[0]): k}}, True]], 'disk_faults': []},
                                 {'ops': [['select', 0, True, {'mode': 'none'}, True], ['agg', 0, True]], 'disk_faults': []}]
            rr = execute(t)
            sub += 1
            for kk, v in rr['stats'].items():
                agg[kk] += v
            digests.append(rr['digest'])
            if rr['nontrivial_key']:
                keys.append(rr['nontrivial_key'])
            if rr['status'] == 'violation' and first is None:
                first = rr
        agg['enum_kill_points_covered'] = len(points)
        agg['enum_kill_points_existing'] = K
        agg['enum_site:' + c[1]] += 1
    res = {'status': 'ok', 'digest': hashlib.sha256(''.join(digests).encode()).hexdigest(), 'stats': dict(agg),
           'nontrivial_key': keys, 'sub_runs': max(1, sub), 'trace': trace, 'interleaving': None}
    if first is not None:
        res.update(status='violation', clause=first['clause'], detail=first['detail'], trace=first['trace'])
    return res


_execute_plain = execute


def execute(trace):  # noqa: F811
    if trace.get('config') == 'enum' and not trace['phases']:
        return _execute_enum(trace)
    if trace.get('config') == 'bridge' and not trace['phases']:
        return _execute_bridge(trace)
    return _execute_plain(trace)


# ---------------------------------------------------------------------------------------------------------------------
# shrinking, signatures, plan

def shrink_candidates(trace):
    t = trace
    for pi in range(len(t['phases'])):
        if len(t['phases']) > 1:
            c = copy.deepcopy(t)
            del c['phases'][pi]
            yield c
        for oi in range(len(t['phases'][pi]['ops'])):
            if sum(len(p['ops']) for p in t['phases']) > 1:
                c = copy.deepcopy(t)
                del c['phases'][pi]['ops'][oi]
                yield c
            op = t['phases'][pi]['ops'][oi]
            if _io_of(op) is not None:
                c = copy.deepcopy(t)
                c['phases'][pi]['ops'][oi] = [e for e in op if not (isinstance(e, dict) and 'io' in e)]
                yield c
            if op[0] == 'select':
                if op[3].get('mode') != 'none':
                    c = copy.deepcopy(t)
                    c['phases'][pi]['ops'][oi][3] = {'mode': 'none'}
                    yield c
                if op[3].get('mode') == 'map':
                    for k in list(op[3]['map']):
                        c = copy.deepcopy(t)
                        del c['phases'][pi]['ops'][oi][3]['map'][k]
                        yield c
        for fi in range(len(t['phases'][pi].get('disk_faults', []))):
            c = copy.deepcopy(t)
            del c['phases'][pi]['disk_faults'][fi]
            yield c
    used = {op[1] for p in t['phases'] for op in p['ops'] if len(op) > 1 and isinstance(op[1], int)}
    for si in range(len(t['settings'])):
        if si not in used and len(t['settings']) > 1:
            c = copy.deepcopy(t)
            del c['settings'][si]
            for p in c['phases']:
                for op in p['ops']:
                    if len(op) > 1 and isinstance(op[1], int) and op[1] > si:
                        op[1] -= 1
            yield c
    for si, sp in enumerate(t['settings']):
        if sp.get('max_par') is not None:
            c = copy.deepcopy(t)
            del c['settings'][si]['max_par']
            yield c
        if sp.get('patterns'):
            c = copy.deepcopy(t)
            c['settings'][si]['patterns'] = None
            yield c
            for k in range(len(sp['patterns'])):
                if len(sp['patterns']) > 1:
                    c = copy.deepcopy(t)
                    del c['settings'][si]['patterns'][k]
                    yield c
        for k in range(len(sp['excluded'])):
            c = copy.deepcopy(t)
            del c['settings'][si]['excluded'][k]
            yield c
        for side in ('src', 'tgt'):
            for k in range(len(sp[side])):
                if len(sp[side]) > 1:
                    c = copy.deepcopy(t)
                    s2 = c['settings'][si]
                    del s2[side][k]
                    pos = 0 if side == 'src' else 1
                    s2['excluded'] = [[a - (1 if pos == 0 and a > k else 0), b - (1 if pos == 1 and b > k else 0)]
                                      for a, b in s2['excluded'] if (a, b)[pos] != k]
                    if s2.get('patterns'):
                        for p in s2['patterns']:
                            del p[side][k]
                        uniq = []
                        for p in s2['patterns']:
                            if p not in uniq:
                                uniq.append(p)
                        s2['patterns'] = uniq
                    yield c
                n = sp[side][k]
                if 'conns' in n and len(n['conns']) > 1:
                    for d in n['conns']:
                        c = copy.deepcopy(t)
                        c['settings'][si][side][k]['conns'] = [x for x in n['conns'] if x != d]
                        yield c
                if n.get('rep'):
                    c = copy.deepcopy(t)
                    c['settings'][si][side][k]['rep'] = False
                    yield c


def trace_size(trace):
    def ssize(sp):
        return (sum(5 + len(n.get('conns', [9, 9])) + (2 if n.get('rep') else 0) for n in sp['src'] + sp['tgt'])
                + 3 * len(sp['excluded']) + 4 * len(sp.get('patterns') or []))
    return (sum(ssize(s) for s in trace['settings']) + 30 * len(trace['phases'])
            + sum(10 + (5 * len(op[3].get('map', {})) + (3 if op[3].get('mode') != 'none' else 0) if op[0] == 'select' else 0)
                  for p in trace['phases'] for op in p['ops'])
            + sum(8 * len(p.get('disk_faults', [])) for p in trace['phases'])
            + sum(6 for p in trace['phases'] for op in p['ops'] if _io_of(op) is not None)
            + sum(2 for sp in trace['settings'] if sp.get('max_par') is not None))


def signature(trace, result):
    kinds = sorted({op[0] for p in trace['phases'] for op in p['ops']})
    faults = set()
    for p in trace['phases']:
        for f in p.get('disk_faults', []):
            faults.add('disk:' + f['kind'])
        for op in p['ops']:
            if _io_of(op) is not None:
                faults.add('io:' + _io_of(op)['kind'])
            if op[0] == 'select' and op[3].get('mode') != 'none':
                if op[3]['mode'] == 'all_first':
                    faults.add('kill-all')
                for a in op[3].get('map', {}).values():
                    faults.add('reject' if isinstance(a, list) else 'kill')
    return {'clause': result['clause'], 'op_kinds': kinds, 'faults': sorted(faults), 'config': trace.get('config')}


def matches_known(known_sig, sig):
    return (known_sig['clause'] == sig['clause'] and set(known_sig.get('faults', [])) <= set(sig.get('faults', []))
            and set(known_sig.get('op_kinds', [])) <= set(sig.get('op_kinds', [])))


def sample(trace):
    return {'settings': trace['settings'], 'phases': trace['phases'], 'config': trace.get('config')}


RULE = ('Runs: (a) in-contract sessions over 1-3 generated connector settings (incl. pairs differing in exactly one '
        'attribute and degenerate settings with <= 1 connection set) split into 1-3 phases, each phase a fresh process on a '
        'shared private cache directory: select(cache on/off, limited calls killed at drawn delivery points, candidates '
        'rejecting, tiny limits), aggregate matrix, per-pattern matrix iteration, counts, cache resets, cache keys, re-selection on one selector object after reconfiguring its imputers and resetting its cache; every returned manager is validated '
        'against brute-force R-conn and, when it came through a cache, against the same selection recomputed without any '
        'cache under the same fault plan; (a2) cache-key families: up to 8 settings grown from one base by single-attribute '
        'edits (degrees, repetition flag, exclusions, patterns added/removed/permuted, transpose, explicit vs unset parallel '
        'limit) - settings that denote different connection sets (R-conn) must have different keys, and members fill and '
        'read the matrix caches one after the other in two processes; (a3) failing disk inside operations: the open() of the cache code fails (EMFILE), a '
        'cache write hits a full disk after n bytes (ENOSPC, the prefix is on disk) or a cache read fails after n bytes (EIO); '
        'the faulted operation may raise that OSError, everything afterwards (same process, fresh process on the same '
        'directory) is judged as if nothing had happened; (b) the same with cache files torn/lost/flipped between phases (explicit errors '
        'accepted, wrong data never); (c) kill-point enumeration: every (strided) delivery point of one limited call of a '
        'cold selection, then an unlimited selection through the cache in a fresh process. evaluations = sessions / '
        'enumeration sub-runs completed; non-trivial = a limiter kill, a candidate rejection, a cache hit or a disk fault '
        'fired; distinct = distinct (settings, phases).')
COMPONENTS = {'real': ['EncoderSelector, all registered encoders and imputers, AggregateAssignmentMatrixGenerator, '
                       'cache.py, pickle files on a real (private, tmpfs) directory, numba kernels'],
              'stub': ['run_timeout -> virtual limiter (kill at delivery point k / candidate raises)', 'process restarts = '
                       'fresh forks of the pristine image', 'disk faults applied to the cache directory between phases', 'builtins.open as seen by matrix.py / selector.py -> '
                       'fault-injecting file object (ENOSPC after n bytes, EIO after n bytes, EMFILE) for single operations',
                       'np.random / random seeds']}
ASSUMPTIONS = ['R-conn: per-pair cap = 0 (excluded) / 1 (an end forbids repetition) / min of the parallel limit and the two '
               'maximum degrees; the parallel limit is the explicit max_conn_parallel or, when unset, max(2, largest degree '
               'of a bounded node present in the pattern) - the documented default applied to the nodes of the pattern '
               '(validated against the unchanged library on 6 000 generated (settings, pattern) pairs: 0 differences).',
               'Transparency is judged against a recomputation under the same fault plan and seeds.',
               '<= 3x3 connectors, degrees <= 3, <= 4 existence patterns.']
WALL_BUDGET = {'quick': 100.0, 'thorough': 700.0}
DETERMINISM_RERUNS = {'quick': 4, 'thorough': 16}


def jobs(tier, batch_seed):
    from simkit.driver import std_jobs
    if tier == 'thorough':
        return std_jobs([('generate_enum', 32), ('generate_bridge', 48), ('generate_keys', 4000), ('generate_io', 6000),
                         ('generate', 20000), ('generate_disk', 6000)], batch_seed, interleave_from=2)
    return std_jobs([('generate_enum', 3), ('generate_bridge', 3), ('generate_keys', 60), ('generate_io', 50), ('generate', 110),
                     ('generate_disk', 30)], batch_seed, interleave_from=2)
