"""C14 - the fast selection-choice encoder is sound and covers the design space."""
from checks import decode as dc
from checks.decode import (ENGINE, LEVEL, RUN_TIMEOUT_S, warmup, shrink_candidates, trace_size, signature, sample,
                           matches_known, COMPONENTS, ASSUMPTIONS)

PROPERTY = 'C14'
MODES = ['kill', 'kill', 'mem', 'fast', 'fast']


def generate(seed, tier='quick', index=0):
    return dc.generate(PROPERTY, seed, tier, MODES, constraint_share=0.25, conn_share=0.08)


def execute(trace):
    return dc.execute(PROPERTY, trace)


RULE = ('Each run generates a DSG spec (incl. zero selection choices, forced single-option choices, incompatibilities, '
        'shared options, design-variable nodes) and obtains a processor with the FAST encoder '
        'the way production does - the complete analysis is killed by the time limiter at a drawn delivery point, or fails '
        'with an injected MemoryError - or by request; the whole declared space (<= 300 vectors) or a sample is decoded: '
        'every result is an R-sem-admitted architecture, every corrected vector decodes to itself, a second processor fed '
        'the vectors in another order gives the same table, and for exhaustively decoded spaces the reached architectures '
        'equal R-sem\'s set and the set of the complete-encoder twin. evaluations = runs that obtained a FAST processor; '
        'non-trivial = >= 2 admitted architectures; distinct = distinct (spec, mode).')
WALL_BUDGET = {'quick': 90.0, 'thorough': 700.0}


def jobs(tier, batch_seed):
    from simkit.driver import std_jobs
    return std_jobs([('generate', 200000 if tier == 'thorough' else 12000)], batch_seed)
