"""C15 - fixing a design variable restricts the design space exactly; freeing restores it (fix/free histories)."""
import itertools

from checks import session as ss
from checks.session import (ENGINE, LEVEL, RUN_TIMEOUT_S, shrink_candidates, trace_size, signature, sample,
                            matches_known, obs_enum, obs_x, obs_instance, obs_dvs, _num)

PROPERTY = 'C15'


def warmup():
    return ss.warmup(with_selector=False)  # no connection choices here: keep the forked image small

WEIGHTS = {'decode': 5, 'enumerate': 3, 'n_valid': 1, 'stats': 0.5, 'fix': 5, 'free': 3}


class FixSession(ss.Session):
    """Oracle: the filter law over the unfixed enumeration E0 of a fresh twin."""

    def e0(self):
        if not hasattr(self, '_e0'):
            T0 = self.twin(fixed={})
            res = T0.get_all_discrete_x(with_fixed=False)
            self._e0 = None if res is None else obs_enum(res)
            self._all = obs_dvs(T0.all_des_vars)
        return self._e0

    def classify(self):
        """For the current fixed set: (required rows, allowed rows) of E0 projected onto the free columns."""
        e0 = self.e0()
        free = [k for k in range(len(self._all)) if k not in self.fixed]
        required, allowed = set(), set()
        for x, act in e0:
            ok, req = True, True
            for i, v in self.fixed.items():
                if self._all[i][1] == 'cont':
                    continue  # continuous columns carry no value in the enumeration
                if act[i]:
                    if x[i] != _num(v):
                        ok = False
                        break
                else:
                    req = False
            if not ok:
                continue
            row = (tuple(x[k] for k in free), tuple(act[k] for k in free))
            allowed.add(row)
            if req:
                required.add(row)
        return required, allowed

    def op_enumerate(self, op):
        e0 = self.e0()
        if e0 is None:
            return
        rp = self.call(lambda: obs_enum(self.P.get_all_discrete_x(with_fixed=True)))
        self.log.append(('enumerate', rp[0], None if rp[0] != 'ok' or rp[1] is None else len(rp[1])))
        self.stats['enumerations'] += 1
        if rp[0] != 'ok' or rp[1] is None:
            self.V('restricted-enumeration-fails', f'fixed {self.fixed}: {rp[:3]}')
        required, allowed = self.classify()
        got = set(rp[1])
        if self.fixed:
            self.stats['probe:enumeration_under_fix'] += 1
            # the unfixed view of the processor (with_fixed=False) is the original problem, whatever is fixed meanwhile
            ru = self.call(lambda: obs_enum(self.P.get_all_discrete_x(with_fixed=False)))
            if ru[0] != 'ok' or ru[1] is None or sorted(ru[1]) != sorted(e0):
                self.V('unfixed-view-differs', f'fixed {self.fixed}: get_all_discrete_x(with_fixed=False) is not the '
                                               f'enumeration of the original problem: '
                                               f'{ru[:3] if ru[0] != "ok" or ru[1] is None else self._enum_diff(ru, ("ok", e0))}')
            nu = self.call(lambda: int(self.P.get_n_valid_designs(with_fixed=False)))
            if nu[0] != 'ok' or nu[1] != len(e0):
                self.V('unfixed-view-differs', f'fixed {self.fixed}: get_n_valid_designs(with_fixed=False) = {nu[1:]} but the '
                                               f'original problem has {len(e0)} designs')
        extra = sorted(got - allowed)
        if extra:
            self.V('restricted-not-subset', f'fixed {self.fixed}: rows {extra[:3]} are not designs of the original problem '
                                            f'with the fixed variables at their values (or inactive)')
        missing = sorted(required - got)
        if missing:
            self.V('restricted-misses-design', f'fixed {self.fixed}: original designs {missing[:3]} in which every fixed '
                                               f'variable is active with its fixed value are missing')
        n = self.call(lambda: int(self.P.get_n_valid_designs(with_fixed=True)))
        if n[0] != 'ok' or n[1] != len(rp[1]):
            self.V('count-differs-from-subset', f'fixed {self.fixed}: get_n_valid_designs(with_fixed=True) = {n[1:]} but '
                                                f'the restricted enumeration has {len(rp[1])} rows')
        if not self.fixed:
            if got != set(e0) or len(rp[1]) != len(e0):
                self.V('not-restored', f'nothing is fixed (after {self.stats["fix_ops"]} fix / {self.stats["free_ops"]} '
                                       f'free operations) but the enumeration differs from a fresh processor: only here '
                                       f'{sorted(got - set(e0))[:3]}, missing {sorted(set(e0) - got)[:3]}')

    def op_decode(self, op):
        _, vs, create = op
        e0 = self.e0()
        T0 = self.twin(fixed={})
        T = self.twin()
        if obs_dvs(self.P.des_vars) != obs_dvs(T.des_vars):
            self.V('des-vars-differ', f'{obs_dvs(self.P.des_vars)} vs fresh {obs_dvs(T.des_vars)}')
        x = self.vector(vs, T.des_vars, T)
        self.decodes.append(list(x))
        rp = self.call(lambda: self.P.get_graph(list(x), create=True))
        self.log.append(('decode', obs_x(x), rp[0]))
        self.stats['decodes'] += 1
        if self.fixed:
            self.stats['probe:decode_under_fix'] += 1
        if rp[0] != 'ok':
            rt = self.call(lambda: T.get_graph(list(x), create=True))
            if rt[0] != 'exc' or rt[1] != rp[1]:
                self.V('decode-raises', f'x={x} fixed={self.fixed}: {rp[:3]}')
            return
        g, xi, act = rp[1]
        free = [k for k in range(len(self._all)) if k not in self.fixed]
        # full vector: fixed values inserted
        full_in, full_out = [None] * len(self._all), [None] * len(self._all)
        for k, v in self.fixed.items():
            full_in[k] = full_out[k] = v
        for k, vi, vo in zip(free, x, xi):
            full_in[k], full_out[k] = vi, vo
        # the instance must be what the unfixed problem decodes from the corrected full vector, and the free part of the
        # corrected vector / activeness must agree
        if not self.fixed:
            return  # nothing fixed: equality with a fresh processor is C05's subject
        r0 = self.call(lambda: T0.get_graph(list(full_out), create=True))
        if r0[0] != 'ok':
            self.V('decode-outside-original', f'x={x} fixed={self.fixed}: corrected full vector {full_out} cannot be decoded '
                                              f'by the unfixed problem: {r0[:3]}')
        g0, x0, a0 = r0[1]
        if obs_instance(g0) != obs_instance(g):
            self.V('decode-instance-not-original', f'x={x} fixed={self.fixed}: instance differs from the unfixed decode of '
                                                   f'{full_out}: {ss._diff(obs_instance(g), obs_instance(g0))}')
        for k in range(len(self._all)):
            if k in self.fixed:
                if a0[k] and self._all[k][1] == 'disc' and _num(x0[k]) != _num(self.fixed[k]):
                    self.V('decode-ignores-fix', f'x={x} fixed={self.fixed}: the instance has variable {self._all[k][0]} '
                                                 f'active with value {x0[k]}')
        if [(_num(x0[k]), bool(a0[k])) for k in free] != [(_num(v), bool(a)) for v, a in zip(xi, act)]:
            self.V('decode-vector-not-original', f'x={x} fixed={self.fixed}: corrected {obs_x(xi)}/{list(map(bool, act))} but '
                                                 f'the unfixed decode of {full_out} reports {obs_x(x0)}/{list(map(bool, a0))}')
        # with respect to the processor's own restricted enumeration E_F (itself held to the filter law by the enumerate
        # steps): a fully active row of E_F is returned unchanged, and every result is a row of E_F
        if e0 is not None:
            ef = self.call(lambda: obs_enum(self.P.get_all_discrete_x(with_fixed=True)))
            if ef[0] == 'ok' and ef[1] is not None:
                disc_free = [j for j, k in enumerate(free) if self._all[k][1] == 'disc']
                req_row = tuple(_num(x[j]) for j in disc_free)
                hits = [r for r in ef[1] if tuple(r[0][j] for j in disc_free) == req_row and all(
                    r[1][j] for j in disc_free)]
                got_row = tuple(_num(xi[j]) for j in disc_free)
                if hits and got_row != req_row:
                    self.V('valid-vector-changed', f'x={x} fixed={self.fixed} is a fully active row of the restricted '
                                                   f'enumeration but was corrected to {obs_x(xi)}')
                in_subset = any(tuple(r[0][j] for j in disc_free) == got_row and
                                tuple(r[1][j] for j in disc_free) == tuple(bool(act[j]) for j in disc_free)
                                for r in ef[1])
                if not in_subset:
                    self.V('decode-outside-subset', f'x={x} fixed={self.fixed}: result {obs_x(xi)}/'
                                                    f'{list(map(bool, act))} is not a row of the restricted enumeration')

    def op_n_valid(self, op):
        self.op_enumerate(['enumerate', True])

    def op_stats(self, op):
        r = self.call(lambda: self.P.get_statistics())
        self.log.append(('stats', r[0]))
        if r[0] != 'ok':
            self.V('statistics-raise', f'fixed {self.fixed}: {r[:3]}')

    def run(self):
        super().run()
        if self.P is None or getattr(self, '_construction_failed', False):
            return
        # free everything: the processor must be observationally a fresh one
        self.cur_op = 'restore'
        for i in sorted(self.fixed):
            self.P.free_des_var(self.P.all_des_vars[i])
        self.fixed = {}
        self.check_fix_bookkeeping()
        self.op_enumerate(['enumerate', True])
        T = self.twin()
        dvs = T.des_vars
        space = 1
        for d in dvs:
            space *= d.n_opts if d.is_discrete else 2
        import random
        rng = random.Random(self.trace['env_seed'])
        vecs = []
        if space <= 40:
            for combo in itertools.product(*[range(d.n_opts) if d.is_discrete else (d.bounds[0], d.bounds[1]) for d in dvs]):
                vecs.append(list(combo))
        else:
            for _ in range(25):
                vecs.append([rng.randrange(d.n_opts) if d.is_discrete else rng.uniform(*d.bounds) for d in dvs])
        for x in vecs:
            rp = self.call(lambda: self.P.get_graph(list(x), create=False))
            rt = self.call(lambda: T.get_graph(list(x), create=False))
            self.stats['restore_decodes'] += 1
            if rp[0] != rt[0] or (rp[0] == 'ok' and (obs_x(rp[1][1]) != obs_x(rt[1][1])
                                                     or list(map(bool, rp[1][2])) != list(map(bool, rt[1][2])))):
                self.V('not-restored', f'after freeing everything decode({x}) = '
                                       f'{rp[1][1:] if rp[0] == "ok" else rp[:3]} but a fresh processor gives '
                                       f'{rt[1][1:] if rt[0] == "ok" else rt[:3]}')


def generate(seed, tier='quick', index=0):
    t = ss.generate(PROPERTY, seed, tier, WEIGHTS, n_ops=(3, 12), p_cycles=(0.0,))
    return t


def execute(trace):
    return ss.execute(PROPERTY, trace, session_cls=FixSession)


RULE = ('Each run generates a DSG spec (selection choices, incompatibilities, discrete and continuous design-variable nodes '
        'under permanent and conditional nodes) and a history of 3-12 operations over {fix(i, v) incl. out-of-range values, '
        'free(i), enumerate, decode, counts, statistics}; every enumeration under fixed variables is compared with the '
        'filter of the unfixed enumeration E0 of a fresh twin (subset, required rows, count), every decode with the unfixed '
        'decode of the vector with the fixed values inserted, and at the end everything is freed and the processor must be '
        'observationally a fresh one (enumeration and decode table). evaluations = runs completed; non-trivial = >= 1 '
        'fix/free step followed by a checked enumeration or decode; distinct = distinct (spec, ops).')
COMPONENTS = ss_components = {'real': ['adsg_core GraphProcessor (fix_des_var / free_des_var / masks / caches), hierarchy '
                                       'analyzers, DSG graph code, func_cache'],
                              'stub': ['run_timeout replaced by the virtual limiter (never kills in this check)',
                                       'identity of id-less nodes (seeded)', 'seeds of random / np.random',
                                       'private cache directory']}
ASSUMPTIONS = ['E0 is the unfixed enumeration of a fresh twin built from the same spec (completeness of E0 itself is C04, '
               'not claimed here).', 'Continuous variables carry no value in the enumeration; fixing them only removes '
               'the column.', 'Graphs are small; complete selection-choice encoder.']
WALL_BUDGET = {'quick': 70.0, 'thorough': 600.0}


def jobs(tier, batch_seed):
    from simkit.driver import std_jobs
    return std_jobs([('generate', 300000 if tier == 'thorough' else 12000)], batch_seed)
