"""C18 - identity, equality and serialization of graphs are structural and stable.  Engine E2 with restarts and peers.

Pickle bytes are the durable state: a "restart" continues from them alone; a *peer* is another interpreter started with
another PYTHONHASHSEED and another identity stream (every set iterates differently) that builds the same spec and returns
pickles, variable definitions and decode tables."""
import os
import sys
import copy
import pickle
import random
import hashlib
import itertools
import collections

from simkit import gen_dsg, hashorder, simenv
from simkit.rng import Streams
from checks.session import spec_features, obs_dvs, obs_x, obs_instance

PROPERTY = 'C18'
ENGINE = 'E2'
LEVEL = 'exploration'
RUN_TIMEOUT_S = 300.0
VERIF = os.path.dirname(os.path.dirname(os.path.abspath(__file__)))
REPO = None
_peer = None


def warmup():
    global REPO
    import adsg_core
    REPO = os.path.dirname(os.path.dirname(os.path.abspath(adsg_core.__file__)))
    import adsg_core.optimization.graph_processor  # noqa
    import adsg_core.optimization.assign_enc.selector  # noqa
    simenv.setup(REPO)
    simenv.install_limiter()
    return {'local_hashseed': os.environ.get('PYTHONHASHSEED')}


def slot_init(slot_index):
    """One long-lived peer interpreter per slot, with a hash seed different from the local one."""
    global _peer
    from simkit.peer import PeerClient
    _peer = PeerClient(1 + slot_index % 3, VERIF, REPO)


def _get_peer():
    global _peer
    if _peer is None:
        from simkit.peer import PeerClient
        _peer = PeerClient(2, VERIF, REPO)
    return _peer


class Viol(Exception):
    def __init__(self, clause, detail):
        super().__init__(clause)
        self.clause = clause
        self.detail = detail


def _vectors(dvs, seed):
    rng = random.Random(seed)
    opts = []
    space = 1
    for d in dvs:
        opts.append(list(range(d.n_opts)) if d.is_discrete else [d.bounds[0], d.bounds[1]])
        space *= len(opts[-1])
    if space <= 200:
        return [list(v) for v in itertools.product(*opts)]
    return [[rng.choice(o) for o in opts] for _ in range(60)]


def _table(p, vec_seed):
    dvs = p.des_vars
    rows = []
    for x in _vectors(dvs, vec_seed):
        try:
            g, xi, act = p.get_graph(list(x), create=True)
            rows.append((tuple(x), obs_x(xi), tuple(bool(a) for a in act), obs_instance(g)))
        except Exception as e:
            rows.append((tuple(x), 'exc', type(e).__name__))
    return rows


def compute_side(req):
    """Runs in the local process and, identically, in a fresh fork of a peer: build the spec under the given identity
    stream; return pickles, variable definitions and the decode table."""
    from adsg_core.optimization.graph_processor import GraphProcessor
    hashorder.install(req['ids_seed'])
    simenv.reset()
    out = {'hashseed': os.environ.get('PYTHONHASHSEED')}
    try:
        with simenv.RunEnv(req['env_seed']):
            if req.get('proc_pickle') is not None:
                p = pickle.loads(req['proc_pickle'])  # restart: continue from pickle bytes only
                out['dvs'] = obs_dvs(p.des_vars)
                out['table'] = _table(p, req['vec_seed'])
                return out
            built = gen_dsg.build(req['spec'])
            out['graph_pickle'] = pickle.dumps(built.dsg)
            out['nodes'] = gen_dsg.observe_nodes(built.dsg)
            try:
                p = GraphProcessor(built.dsg)
                out['dvs'] = obs_dvs(p.des_vars)
                out['table'] = _table(p, req['vec_seed'])
                out['proc_pickle'] = pickle.dumps(p)
            except Exception as e:  # no processor for this graph: both sides must fail alike
                out['dvs'] = ('exc', type(e).__name__)
                out['table'] = None
                out['proc_pickle'] = None
    finally:
        hashorder.uninstall()
        simenv.reset()
    return out


def _edit(rng, spec, built, g):
    """One structural edit on a copy; returns (edited graph, description)."""
    from adsg_core.graph.adsg_nodes import NamedNode
    from adsg_core.graph.adsg_basic import ChoiceConstraintType
    from adsg_core.graph.adsg_nodes import SelectionChoiceNode
    c = g.copy()
    kind = rng.choice(['add_node', 'add_edge', 'remove_node', 'remove_edge', 'start', 'constraint', 'typed_edge',
                       'remove_start'])
    nodes = [n for n in c.graph.nodes]
    if kind == 'typed_edge' and len(nodes) >= 2:
        # an edge of another type between two existing nodes - also parallel to an edge they already share
        from adsg_core.graph.graph_edges import EdgeType
        pairs = [(u, v) for u, v in c.graph.edges()]
        a, b = rng.choice(pairs) if pairs and rng.random() < .6 else rng.sample(nodes, 2)
        et = rng.choice([EdgeType.CONNECTS, EdgeType.EXCLUDES, EdgeType.INCOMPATIBILITY, EdgeType.DERIVES])
        n_before = c.graph.number_of_edges()
        c.add_edge(a, b, edge_type=et)
        if c.graph.number_of_edges() == n_before + 1:
            return c, f'edge {gen_dsg.label(a)}->{gen_dsg.label(b)} of type {et.name} added-typed'
        c = g.copy()
    if kind == 'remove_start' and c.derivation_start_nodes and len(c.derivation_start_nodes) >= 2:
        c2 = c.get_for_adjusted(inplace=False)
        drop = rng.choice(sorted(c.derivation_start_nodes, key=gen_dsg.label))
        c2._start_nodes = set(c.derivation_start_nodes) - {drop}
        return c2, 'start node removed'
    if kind == 'add_node':
        c.graph.add_node(NamedNode('Xnew'))
        return c, 'node added'
    if kind == 'add_edge':
        a, b = rng.sample(nodes, 2) if len(nodes) >= 2 else (nodes[0], NamedNode('Xnew'))
        if c.graph.has_edge(a, b):
            c.graph.add_node(NamedNode('Xnew2'))
            return c, 'node added'
        c.add_edge(a, b)
        return c, f'edge {gen_dsg.label(a)}->{gen_dsg.label(b)} added'
    if kind == 'remove_node' and len(nodes) > 1:
        n = rng.choice([x for x in nodes if x not in (c.derivation_start_nodes or set())] or nodes)
        c.graph.remove_node(n)
        return c, f'node {gen_dsg.label(n)} removed'
    if kind == 'remove_edge' and c.graph.number_of_edges() > 0:
        e = rng.choice(list(c.graph.edges(keys=True)))
        c.graph.remove_edge(*e)
        return c, f'edge {gen_dsg.label(e[0])}->{gen_dsg.label(e[1])} removed'
    if kind == 'start':
        cands = [n for n in nodes if n not in c.derivation_start_nodes and isinstance(n, NamedNode)]
        if cands:
            c2 = c.get_for_adjusted(inplace=False)
            c2._start_nodes = set(c.derivation_start_nodes) | {rng.choice(cands)}
            return c2, 'start node added'
    if kind == 'constraint':
        sel = [n for n in nodes if isinstance(n, SelectionChoiceNode)]
        groups = {}
        for n in sel:
            groups.setdefault(len(c.get_option_nodes(n)), []).append(n)
        pair = next((v for v in groups.values() if len(v) >= 2), None)
        if pair:
            c2 = c.copy()
            c2.constrain_choices(ChoiceConstraintType.LINKED, pair[:2], remove_infeasible_choices=False)
            if len(c2.graph.nodes) == len(c.graph.nodes) and len(c2.graph.edges) == len(c.graph.edges):
                return c2, 'choice constraint added'
    c.graph.add_node(NamedNode('Xnew3'))
    return c, 'node added'


def _copy_laws(g, what):
    """A copy of any graph - also one that just gained or lost a node or an edge - equals it, hashes like it and is the
    same design space; so does its pickle."""
    c = g.copy()
    if not (c == g and hash(c) == hash(g)):
        raise Viol('C18/copy-not-equal', f'{what}: its copy is not equal to it / does not hash like it')
    if not (c.is_same(g) and g.is_same(c) and c.fingerprint() == g.fingerprint()):
        raise Viol('C18/copy-not-equal', f'{what}: its copy is not recognised as the same design space')
    p = pickle.loads(pickle.dumps(g))
    if not (p.is_same(g) and g.is_same(p)):
        raise Viol('C18/pickle-not-same', f'{what}: restored from pickle it is not recognised as the same design space')


def _instance_edits(p, vec_seed, stats):
    """Decoded instances with parallel connection edges: lose one of the parallel edges (the one with the lowest key),
    then the copy laws must hold for what is left."""
    from adsg_core.graph.graph_edges import get_edge_type, EdgeType
    rng = random.Random(vec_seed + 11)
    dvs = p.des_vars
    for _ in range(6):
        x = [rng.randrange(d.n_opts) if d.is_discrete else rng.uniform(*d.bounds) for d in dvs]
        try:
            g, _, _ = p.get_graph(x)
        except Exception:
            continue
        _copy_laws(g, f'instance decoded from {x}')
        par = {}
        for u, v, k, d in g.graph.edges(keys=True, data=True):
            if get_edge_type((u, v, k, d)) == EdgeType.CONNECTS:
                par.setdefault((u, v), []).append(k)
        multi = [(uv, ks) for uv, ks in par.items() if len(ks) >= 2]
        if multi:
            (u, v), ks = multi[0]
            e = g.copy()
            e.graph.remove_edge(u, v, min(ks))
            stats['probe:parallel_edge_removed'] += 1
            if e == g or hash(e) == hash(g) or g == e:
                raise Viol('C18/edit-still-equal', f'instance decoded from {x}: after losing one of {len(ks)} parallel '
                                                   f'connection edges it is still equal to (or hashes like) the original')
            _copy_laws(e, f'instance decoded from {x} after losing the first of {len(ks)} parallel connection edges')


def execute(trace):
    log = []
    stats = collections.Counter()
    res = {'status': 'ok'}
    try:
        _run(trace, log, stats)
    except Viol as v:
        res = {'status': 'violation', 'clause': v.clause, 'detail': v.detail}
    h = hashlib.sha256()
    for e in log:
        h.update(repr(e).encode())
    h.update(repr(res.get('clause')).encode())
    res['digest'] = h.hexdigest()
    res['stats'] = dict(stats)
    res['trace'] = trace
    res['nontrivial_key'] = hashlib.sha256(repr(trace['spec']).encode()).hexdigest()[:20] \
        if stats.get('table_rows', 0) >= 2 else None
    res['interleaving'] = None
    return res


def _run(trace, log, stats):
    spec = trace['spec']
    req = {'spec': spec, 'ids_seed': trace['ids_seed'], 'env_seed': trace['env_seed'], 'vec_seed': trace['vec_seed']}
    local = compute_side(req)
    log.append(('local', tuple(local['nodes']), local['dvs'] if isinstance(local['dvs'], tuple) else None))
    # --- 1. copy / structural edits (local)
    hashorder.install(trace['ids_seed'] + 5)
    try:
        g = pickle.loads(local['graph_pickle'])  # a graph object to play with
        built = gen_dsg.build(spec)
        g0 = built.dsg
        c = g0.copy()
        if not (c == g0 and hash(c) == hash(g0)):
            raise Viol('C18/copy-not-equal', 'a copy is not equal to / does not hash like the original')
        rng = random.Random(trace['edit_seed'])
        for _ in range(trace.get('n_edits', 3)):
            e, what = _edit(rng, spec, built, g0)
            stats['edits'] += 1
            stats['edit:' + what.split()[0] + '-' + what.split()[-1]] += 1
            if e == g0 or hash(e) == hash(g0):
                raise Viol('C18/edit-still-equal', f'{what}: the edited copy is still equal to (or hashes like) the original')
            if g0 == e:
                raise Viol('C18/edit-still-equal', f'{what}: the original is still equal to the edited copy')
            _copy_laws(e, f'graph after "{what}"')
        # --- instances (parallel connection edges)
        if spec.get('conn'):
            try:
                from adsg_core.optimization.graph_processor import GraphProcessor
                pr = GraphProcessor(g0)
                _ = pr.des_vars
            except Exception:
                pr = None
            if pr is not None:
                _instance_edits(pr, trace['vec_seed'], stats)
        # --- constraint chain: a graph that already has a constraint is copied and only the copy gains another one
        from adsg_core.graph.adsg_basic import ChoiceConstraintType
        from adsg_core.graph.adsg_nodes import SelectionChoiceNode
        sel = sorted((n for n in g0.graph.nodes if isinstance(n, SelectionChoiceNode)), key=gen_dsg.label)
        by_n = {}
        for n in sel:
            by_n.setdefault(len(g0.get_option_nodes(n)), []).append(n)
        pairs = []
        for v in by_n.values():
            while len(v) >= 2:
                pairs.append([v.pop(), v.pop()])
        if len(pairs) >= 2:
            ga = g0.copy()
            ga.constrain_choices(ChoiceConstraintType.LINKED, pairs[0], remove_infeasible_choices=False)
            ha, fa, pa = hash(ga), ga.fingerprint(), pickle.dumps(ga)
            gb = ga.copy()
            if not (gb == ga and hash(gb) == hash(ga)):
                raise Viol('C18/copy-not-equal', 'a copy of a graph with a choice constraint is not equal to the original')
            gb.constrain_choices(ChoiceConstraintType.LINKED, pairs[1], remove_infeasible_choices=False)
            stats['constraint_chains'] += 1
            if gb == ga or hash(gb) == hash(ga) or gb.is_same(ga):
                raise Viol('C18/edit-still-equal', 'a second choice constraint was added to the copy only, but copy and '
                                                   'original are still equal / hash alike / is_same')
            if hash(ga) != ha or ga.fingerprint() != fa or not ga.is_same(pickle.loads(pa)):
                raise Viol('C18/original-changed-by-edit-of-copy', 'adding a choice constraint to a copy changed the hash / '
                                                                   'fingerprint of the original')
        # --- exports
        gml = g0.export_gml()
        import networkx as nx
        parsed = nx.parse_gml(gml, label='id')
        if parsed.number_of_nodes() != g0.graph.number_of_nodes() or parsed.number_of_edges() != g0.graph.number_of_edges():
            raise Viol('C18/gml-incomplete', f'GML export has {parsed.number_of_nodes()} nodes / {parsed.number_of_edges()} '
                                             f'edges, the graph {g0.graph.number_of_nodes()} / {g0.graph.number_of_edges()}')
        dot = g0.export_dot(return_dot=True)
        dot_s = dot.to_string() if hasattr(dot, 'to_string') else str(dot)
        missing = [gen_dsg.label(n) for n in g0.graph.nodes if str(n.get_export_title()) not in dot_s]
        if missing:
            raise Viol('C18/dot-incomplete', f'DOT export does not mention nodes {missing[:4]}')
        stats['exports'] += 2
        # --- 2. pickle round trip (local)
        g1 = pickle.loads(pickle.dumps(g0))
        if not (g0.is_same(g1) and g1.is_same(g0) and g0.fingerprint() == g1.fingerprint()):
            raise Viol('C18/pickle-not-same', 'a graph restored from pickle is not recognised as the same design space')
        stats['pickle_roundtrips'] += 1
        # --- 3. peer: same spec, other hash seed, other identity stream
        peer = _get_peer()
        preq = dict(req, ids_seed=trace['peer_ids_seed'])
        pres = peer.ask(preq)
        if 'error' in pres:
            raise RuntimeError('peer failed: ' + pres['error'])
        stats['peer_builds'] += 1
        stats['probe:peer_hashseed_' + str(pres['hashseed'])] += 1
        gp = pickle.loads(pres['graph_pickle'])
        if not (g0.is_same(gp) and gp.is_same(g0)):
            raise Viol('C18/peer-graph-not-same', f'the graph built in a process with PYTHONHASHSEED={pres["hashseed"]} from '
                                                  f'the same description is not recognised as the same design space')
        if gp.fingerprint() != g0.fingerprint():
            raise Viol('C18/peer-graph-not-same', 'fingerprints differ')
        _compare('peer-built', local, pres, stats)
        # --- 4. restart: the peer's processor pickle continues here, and ours continues in the peer
        if pres.get('proc_pickle') is not None and local.get('proc_pickle') is not None:
            here = compute_side(dict(req, proc_pickle=pres['proc_pickle']))
            _compare('peer-pickle-restored-here', local, here, stats)
            there = peer.ask(dict(req, proc_pickle=local['proc_pickle']))
            if 'error' in there:
                raise RuntimeError('peer failed: ' + there['error'])
            _compare('our-pickle-restored-in-peer', local, there, stats)
            stats['restarts'] += 2
            again = compute_side(dict(req, proc_pickle=local['proc_pickle']))
            _compare('pickle-restored-locally', local, again, stats)
    finally:
        hashorder.uninstall()
    log.append(('done', stats['table_rows']))


def _compare(what, a, b, stats):
    if a['dvs'] != b['dvs']:
        raise Viol(f'C18/variables-differ/{what}', f'design variables {a["dvs"]} vs {b["dvs"]}')
    if a['table'] is None or b['table'] is None:
        return
    for ra, rb in zip(a['table'], b['table']):
        stats['table_rows'] += 1
        if ra != rb:
            d = ''
            if len(ra) == 4 and len(rb) == 4:
                from checks.session import _diff
                d = f'corrected {ra[1]} vs {rb[1]}; active {ra[2]} vs {rb[2]}; ' + (_diff(ra[3], rb[3]) if ra[3] != rb[3] else '')
            raise Viol(f'C18/mapping-differs/{what}', f'x={list(ra[0])}: {d or (ra[1:3], rb[1:3])}')


def generate(seed, tier='quick', index=0):
    s = Streams(seed)
    rng = s('gen')
    spec = gen_dsg.gen_tree_spec(rng, n_incompat_max=rng.choice([0, 0, 2]), max_choices=rng.choice([1, 2, 3, 4]))
    spec = gen_dsg.clean_incompat(spec)
    spec = gen_dsg.add_dv_metrics(rng, spec)
    if rng.random() < 0.3:
        spec = gen_dsg.add_conn_choice(rng, spec, p_group=0.0, max_side=2)
        if rng.random() < 0.5:  # favour repeated (parallel) connections
            cc = spec['conn'][-1]
            for c in (cc['src'][0], cc['tgt'][0]):
                c['deg'] = [1, 2]
                c['rep'] = True
            cc['exclude'] = []
    if rng.random() < 0.3:
        # constraint-friendly: four further independent choices at the start node, pairwise with equal option counts
        k0 = len(spec['nodes'])
        for c in range(4):
            n_opt = 2 if c < 2 else rng.choice([2, 3])
            names = [f'N{100 + 10 * c + j}' for j in range(n_opt)]
            spec['nodes'] += names
            spec['sel'].append([f'K{c}', spec['start'][0], names])
    return {'property': PROPERTY, 'engine': ENGINE, 'seed': seed, 'spec': spec, 'ids_seed': s.int_seed('ids'),
            'peer_ids_seed': s.int_seed('ids-peer'), 'env_seed': s.int_seed('env'), 'vec_seed': s.int_seed('vec'),
            'edit_seed': s.int_seed('edit'), 'n_edits': 3}


def shrink_candidates(trace):
    from checks.decode import shrink_candidates as dshrink
    for c in dshrink({**trace, 'mode': {'kind': 'default', 'frac': 0.0}}):
        yield {k: v for k, v in c.items() if k != 'mode'}
    if trace.get('n_edits', 0) > 0:
        c = copy.deepcopy(trace)
        c['n_edits'] = 0
        yield c


def trace_size(trace):
    from checks.decode import trace_size as ds
    return ds({**trace, 'mode': {'kind': 'default', 'frac': 0.0}}) + 5 * trace.get('n_edits', 0)


def signature(trace, result):
    return {'clause': result['clause'], 'needs': spec_features(trace['spec'])}


def matches_known(known_sig, sig):
    return known_sig['clause'] == sig['clause'] and set(known_sig.get('needs', [])) <= set(sig.get('needs', []))


def sample(trace):
    return {'spec': trace['spec'], 'n_edits': trace.get('n_edits')}


RULE = ('Each run generates a DSG spec and (1) checks copy equality / hash and inequality after single structural edits '
        '(node, edge, start node, choice constraint added or removed) and completeness of the GML and DOT exports, (2) pickle '
        'round trips of the graph (is_same / fingerprint), (3) asks a peer interpreter started with another PYTHONHASHSEED to '
        'build the same spec under another identity stream: its graph must be recognised as the same design space, its '
        'processor must define the same variables in the same order and the same vector -> (corrected vector, activeness, '
        'labelled instance) table (exhaustive <= 200 vectors, else 60 sampled), (4) restarts: the peer\'s processor pickle is '
        'continued locally and ours in the peer, same table. evaluations = runs; non-trivial = >= 2 table rows compared; '
        'distinct = distinct specs.')
COMPONENTS = {'real': ['adsg_core graph hash/eq/fingerprint/is_same/copy, pickle of graphs and processors, GraphProcessor '
                       'decode, exports; a second CPython interpreter with another PYTHONHASHSEED'],
              'stub': ['identity of id-less nodes (two different seeded streams)', 'private cache directories, seeds',
                       'run_timeout -> virtual limiter (never kills here)']}
ASSUMPTIONS = ['is_same / fingerprint are evaluated with both graphs loaded into one process (they hash strings).',
               'Acyclic choice structures; no grouping connectors; small graphs.']
WALL_BUDGET = {'quick': 80.0, 'thorough': 600.0}
DETERMINISM_RERUNS = {'quick': 4, 'thorough': 16}


def jobs(tier, batch_seed):
    from simkit.driver import std_jobs
    return std_jobs([('generate', 100000 if tier == 'thorough' else 3000)], batch_seed)
