"""C19 - the time limiter returns, raises or times out, and leaves nothing running.  Engine E1 (simthread).

System under test: adsg_core.optimization.assign_enc.time_limiter.run_timeout exactly as in the working tree, on the real
multiprocessing.pool.ThreadPool, with the real PyThreadState_SetAsyncExc. Oracle: R-tl (simkit/ref_tl.py) over the
recorded history."""
import os
import sys
import copy
import ctypes
import threading
import collections

from simkit import simthread as st
from simkit import ref_tl
from simkit.rng import Streams

PROPERTY = 'C19'
ENGINE = 'E1'
LEVEL = 'fault_enumeration'
RUN_TIMEOUT_S = 120.0

_tl = None
_probe = None


class CustomError(Exception):
    pass


class WorkerDeath(BaseException):
    """A BaseException that is not an Exception: the pool worker does not catch it, the worker thread dies."""


def warmup():
    """Import the code under test, arm its code objects, install the shims, probe the interrupt type (real threads)."""
    global _tl, _probe
    import adsg_core.optimization.assign_enc.time_limiter as tl
    _tl = tl
    _probe = probe_interrupt_type()
    st.arm(tl.run_timeout.__code__)
    st.arm(_run_prog.__code__)
    st.arm(_loop.__code__)
    st.install()
    return {'interrupt_type_probed': _probe}


def probe_interrupt_type():
    """What does a thread actually receive from PyThreadState_SetAsyncExc(ident, KeyboardInterrupt())? (real thread)"""
    got = []
    ready = threading.Event()
    go = threading.Event()

    def victim():
        try:
            ready.set()
            go.wait(5)
            for _ in range(1000):
                pass
            got.append(None)
        except BaseException as e:
            got.append(type(e).__name__)

    t = threading.Thread(target=victim, name='probe')
    t.start()
    ready.wait(5)
    ctypes.pythonapi.PyThreadState_SetAsyncExc(ctypes.c_long(t.ident), ctypes.py_object(KeyboardInterrupt()))
    go.set()
    t.join(5)
    return got[0] if got else None


INTERRUPT_NAMES = ('KeyboardInterrupt', 'SystemError')


def _is_interrupt(e):
    return type(e).__name__ in INTERRUPT_NAMES and not isinstance(e, (CustomError, WorkerDeath))


# ---------------------------------------------------------------------------------------------------------------------
# workload: small programs run as the limited function

class Ctx:
    def __init__(self, sim):
        self.sim = sim
        self.inside = collections.Counter()  # call id -> number of threads currently executing its function
        self.on_thread = {}  # thread name -> call id of the function it executes (innermost)
        self.hist = collections.defaultdict(list)  # call id -> events
        self.async_targets = []


def _loop(n):
    i = 0
    for _ in range(n):
        i += 1
    return i


def _run_prog(ctx, cid, prog):
    """Interpreter of a workload program. Armed: each of its switch points is a scheduling / delivery point."""
    sim = ctx.sim
    for k, step in enumerate(prog):
        op = step[0]
        if op == 'work':
            d, ticks = step[1], step[2]
            for _ in range(ticks):
                sim.sleep(d / ticks, 'work')
        elif op == 'native':
            sim.sleep(step[1], 'native')
        elif op == 'loop':
            _loop(step[1])
        elif op == 'ret':
            return f'v{cid}:{step[1]}'
        elif op == 'ret_exc':
            # the function RETURNS an exception instance as its value (a validator's verdict, a collected error): the
            # caller must get that object back, not have it raised
            return {'value': ValueError, 'timeout': TimeoutError, 'memory': MemoryError}[step[1]](f'v{cid}:{step[1]}')
        elif op == 'raise':
            kind = step[1]
            if kind == 'value':
                raise ValueError(f'e{cid}')
            if kind == 'memory':
                raise MemoryError(f'e{cid}')
            if kind == 'custom':
                raise CustomError(f'e{cid}')
            if kind == 'timeout':
                raise TimeoutError(f'e{cid}')
            if kind == 'base':
                raise WorkerDeath(f'e{cid}')
            raise AssertionError(kind)
        elif op == 'swallow':
            mode, body = step[1], step[2]
            try:
                r = _run_prog(ctx, cid, body)
                if r is not None:
                    return r
            except Exception as e:
                if not _is_interrupt(e):
                    raise
                ctx.hist[cid].append(('absorbed', sim.event('absorbed', cid), sim.now, type(e).__name__))
            except BaseException as e:
                if mode != 'base' or not _is_interrupt(e):
                    raise
                ctx.hist[cid].append(('absorbed', sim.event('absorbed', cid), sim.now, type(e).__name__))
        elif op == 'nested':
            limit, body = step[1], step[2]
            sub = f'{cid}.{k}'
            out = _call(ctx, sub, limit, body)
            if out[0] == 'exc' and out[1] != 'TimeoutError':
                raise out[3]
        else:
            raise AssertionError(op)
    return None


def _make_func(ctx, cid, prog):
    sim = ctx.sim

    def f():
        me = sim.me()
        ctx.inside[cid] += 1
        prev = ctx.on_thread.get(me.name)
        ctx.on_thread[me.name] = cid
        ctx.hist[cid].append(('fstart', sim.event('fstart', cid), sim.now, me.name))
        try:
            r = _run_prog(ctx, cid, prog)
            if r is None:
                r = f'v{cid}:end'
            ctx.hist[cid].append(('fend', sim.event('fend', cid, 'ret'), sim.now, 'ret', r))
            return r
        except BaseException as e:
            ctx.hist[cid].append(('fend', sim.event('fend', cid, 'exc', type(e).__name__), sim.now, 'exc',
                                  type(e).__name__, repr(getattr(e, 'args', ()))))
            raise
        finally:
            ctx.inside[cid] -= 1
            if prev is None:
                ctx.on_thread.pop(me.name, None)
            else:
                ctx.on_thread[me.name] = prev
    return f


def _call(ctx, cid, limit, prog):
    """One call of run_timeout by the current simulated thread; records invoke / outcome; returns the outcome tuple."""
    sim = ctx.sim
    me = sim.me()
    ctx.hist[cid].append(('invoke', sim.event('invoke', cid, limit), sim.now, me.name, limit))
    f = _make_func(ctx, cid, prog)
    try:
        v = _tl.run_timeout(limit, f)
        out = ('ret', v)
    except st.SimAbort:
        raise
    except BaseException as e:
        out = ('exc', type(e).__name__, repr(getattr(e, 'args', ())), e)
    running = {c: n for c, n in ctx.inside.items() if n > 0 and (c == cid or c.startswith(cid + '.'))}
    chain = []
    if out[0] == 'exc':
        e = out[3]
        while e is not None and len(chain) < 10:
            chain.append(type(e).__name__)
            e = e.__context__ or e.__cause__
    ctx.hist[cid].append(('outcome', sim.event('outcome', cid, out[0], str(out[1])), sim.now, out[:3], running, chain))
    return out


class _CtypesShim:
    """Logs the target of PyThreadState_SetAsyncExc, then performs the real call (time_limiter.ctypes seam)."""

    def __init__(self, ctx):
        self._ctx = ctx
        self.pythonapi = self

    def __getattr__(self, name):
        return getattr(ctypes, name)

    def PyThreadState_SetAsyncExc(self, ident, exc):
        sim = self._ctx.sim
        tid = ident.value if hasattr(ident, 'value') else int(ident)
        rec = sim.recs.get(tid)
        caller = sim.me()
        self._ctx.async_targets.append((sim.event('async-exc', rec.name if rec else '?'), caller.name if caller else '?',
                                        rec.name if rec else None,
                                        ((rec.state + ':' + rec.why.split(':')[0]).rstrip(':')) if rec else None,
                                        self._ctx.on_thread.get(rec.name) if rec else None))
        sim.stats['async_exc_sent'] += 1
        return ctypes.pythonapi.PyThreadState_SetAsyncExc(ident, exc)


def run_scenario(trace):
    """Execute one explicit trace under a fresh Sim. Returns (sim, ctx, outcomes, aborted)."""
    cfg = trace['config']
    streams = Streams(trace.get('sched_seed') or 0)
    sim = st.Sim(streams('sched'), policy=tuple(cfg['policy']), schedule=trace.get('schedule'),
                 step_cap=cfg.get('step_cap', 20000), time_cap=cfg.get('time_cap', 10000.0))
    sim.died = []
    sim.timed_waits = collections.defaultdict(list)
    sim.force_next = None
    ctx = Ctx(sim)
    fe = trace.get('force_expiry')
    fstate = {'n': 0, 'done': False}
    if fe is not None:
        target_cid = str(fe['call'])

        def hook(s, rec, kind):
            if fstate['done'] or ctx.on_thread.get(rec.name) != target_cid:
                return
            fstate['n'] += 1
            if fstate['n'] == fe['at']:
                fstate['done'] = True
                inv = [h for h in ctx.hist[target_cid] if h[0] == 'invoke']
                caller = next((r for r in s.order if r.name == inv[0][3]), None) if inv else None
                if caller is not None and caller.state == 'blocked' and caller.deadline is not None:
                    s.now = max(s.now, caller.deadline)
                    s.log.append((s.seq, '-', 'forced-expiry', s.now, fe['at']))
                    s.force_next = caller
                    s.stats['forced_expiry'] += 1
        sim.hooks.append(hook)
    elif trace.get('count_yields') is not None:
        target_cid = str(trace['count_yields'])

        def hook(s, rec, kind):
            if ctx.on_thread.get(rec.name) == target_cid:
                fstate['n'] += 1
        sim.hooks.append(hook)

    orig_wait = st.SimEvent.wait

    def wait(self, timeout=None):
        if timeout is not None:
            me = sim.me()
            sim.timed_waits[me.name].append((sim.event('timedwait', timeout), sim.now + timeout, sim.now))
        r = orig_wait(self, timeout)
        if timeout is not None and not r:
            sim.timed_waits[me.name].append((sim.event('expired'), None, sim.now))
        return r

    st.SimEvent.wait = wait
    saved_ctypes = _tl.ctypes
    _tl.ctypes = _CtypesShim(ctx)
    saved_hook = threading.excepthook
    threading.excepthook = lambda a: None
    if cfg.get('arm_pool'):
        _arm_pool()
    st.activate(sim)
    sim.register_main()
    outcomes = []
    try:
        for i, call in enumerate(trace['calls']):
            out = _call(ctx, str(i), call['limit'], call['prog'])
            outcomes.append(out[:3])
    except st.SimAbort as e:
        outcomes.append(('abort', str(e)))
    finally:
        st.deactivate()
        st.SimEvent.wait = orig_wait
        _tl.ctypes = saved_ctypes
        threading.excepthook = saved_hook
    sim.yields_in_target = fstate['n']
    return sim, ctx, outcomes


_pool_armed = False


def _arm_pool():
    global _pool_armed
    if _pool_armed:
        return
    import multiprocessing.pool as mpool
    st.arm_module_functions(mpool, names={'worker', 'Pool', 'ApplyResult', 'ThreadPool', '_PoolCache'})
    # Pool.__del__ is run by the garbage collector wherever an allocation happens to trigger it - also in the middle of
    # the simulator's own bookkeeping, where parking the thread deadlocks the run. A finalizer is not a scheduling point of
    # the program: it runs without switch points.
    orig_del = mpool.Pool.__del__

    def _del_without_switch_points(self, *a, **k):
        s = st.SIM
        if s is not None:
            s.noyield += 1
        try:
            return orig_del(self, *a, **k)
        finally:
            if s is not None:
                s.noyield -= 1
    mpool.Pool.__del__ = _del_without_switch_points
    _pool_armed = True


# ---------------------------------------------------------------------------------------------------------------------
# generation

LIMITS = (0.5, 1.0, 2.0)


def _gen_body(rng, limit, placement, depth, allow_nested):
    """A finite program whose total simulated duration is placed relative to `limit`."""
    tick = limit / 8.0
    hair = limit / float(2 ** rng.randint(4, 12))
    total = {'far_below': limit * 0.25, 'just_below': limit - tick, 'exact': limit, 'just_above': limit + tick,
             'far_above': limit * 4.0, 'zero': 0.0, 'hair_below': limit - hair, 'hair_above': limit + hair}[placement]
    steps = []
    left = total
    nparts = rng.randint(1, 3)
    for p in range(nparts):
        d = left if p == nparts - 1 else min(left, round(left * rng.random() * 8) / 8.0)
        left -= d
        kind = rng.choice(['work', 'work', 'native', 'loop'])
        if kind == 'loop':
            steps.append(['loop', rng.randint(1, 6)])
            kind = 'work'
        if d > 0:
            if kind == 'work':
                steps.append(['work', d, rng.choice([1, 2, 4, 8])])
            else:
                steps.append(['native', d])
        if rng.random() < 0.3:
            steps.append(['loop', rng.randint(1, 5)])
    if allow_nested and depth < 1 and rng.random() < 0.25:
        il = rng.choice(LIMITS)
        ipl = rng.choice(['far_below', 'just_below', 'hair_below', 'exact', 'hair_above', 'just_above', 'far_above'])
        inner = _gen_body(rng, il, ipl, depth + 1, False) + [_gen_end(rng)]
        steps.insert(rng.randrange(len(steps) + 1), ['nested', il, inner])
    return steps


def _gen_end(rng):
    r = rng.random()
    if r < 0.05:
        return ['ret_exc', rng.choice(['value', 'timeout', 'memory'])]
    if r < 0.6:
        return ['ret', rng.randrange(1000)]
    if r < 0.9:
        return ['raise', rng.choice(['value', 'memory', 'custom', 'timeout'])]
    return ['raise', 'base']


def generate(seed, tier='quick', index=0):
    s = Streams(seed)
    rng = s('gen')
    ncalls = rng.choice([1, 1, 1, 2, 2, 3, 4])
    calls = []
    allow_nested = rng.random() < 0.2
    for _ in range(ncalls):
        limit = rng.choice(LIMITS)
        placement = rng.choice(['zero', 'far_below', 'just_below', 'hair_below', 'exact', 'exact', 'hair_above',
                                'just_above', 'far_above'])
        body = _gen_body(rng, limit, placement, 0, allow_nested)
        if rng.random() < 0.06:
            # a limit that has expired before the call starts (0 or 0.0): everything that takes time must time out
            limit = rng.choice([0, 0.0])
            body = _gen_body(rng, rng.choice(LIMITS), rng.choice(['far_below', 'just_below', 'exact', 'far_above']), 0, False)
        body.append(_gen_end(rng))
        if rng.random() < 0.25:
            mode = rng.choice(['exc', 'base'])
            tail = [['loop', rng.randint(1, 4)]]
            if rng.random() < 0.5:
                tail.append(['work', rng.choice([0.125, 0.5, 1.0]), 2])
            tail.append(_gen_end(rng))
            body = [['swallow', mode, body]] + tail
        calls.append({'limit': limit, 'prog': body})
    pol = rng.choice([('uniform',), ('sticky', 0.5), ('sticky', 0.9), ('pct', 2, 400), ('pct', 4, 400)])
    return {'property': PROPERTY, 'engine': ENGINE, 'seed': seed,
            'config': {'policy': list(pol), 'arm_pool': rng.random() < (0.3 if tier == 'thorough' else 0.15),
                       'step_cap': 20000, 'time_cap': 10000.0, 'interrupt_probe': _probe},
            'calls': calls, 'force_expiry': None, 'sched_seed': s.int_seed('sched'), 'schedule': None}


def generate_enum(seed, tier='quick', index=0):
    """A single-call scenario for the expiry-position enumeration: the function takes no simulated time (loops and
    zero-length natives only), so the j-th delivery point of the worker inside the function is well defined."""
    s = Streams(seed)
    rng = s('gen')
    steps = []
    for _ in range(rng.randint(1, 4)):
        k = rng.random()
        if k < 0.6:
            steps.append(['loop', rng.randint(1, 5)])
        elif k < 0.8:
            steps.append(['native', 0.0])
        else:
            steps.append(['work', 0.0, 2])
    steps.append(_gen_end(rng) if rng.random() < 0.8 else ['ret', 0])
    if rng.random() < 0.3:
        steps = [['swallow', rng.choice(['exc', 'base']), steps], ['loop', rng.randint(1, 3)], _gen_end(rng)]
    calls = [{'limit': 1.0, 'prog': steps}]
    if rng.random() < 0.5:
        calls.append({'limit': 1.0, 'prog': [['loop', 2], ['ret', 7]]})
    pol = rng.choice([('uniform',), ('sticky', 0.7), ('pct', 3, 300)])
    return {'property': PROPERTY, 'engine': ENGINE, 'seed': seed, 'mode': 'enum',
            'config': {'policy': list(pol), 'arm_pool': False, 'step_cap': 20000, 'time_cap': 10000.0,
                       'interrupt_probe': _probe},
            'calls': calls, 'force_expiry': None, 'sched_seed': s.int_seed('sched'), 'schedule': None}


# ---------------------------------------------------------------------------------------------------------------------
# execution + oracle

def execute(trace):
    """Run one explicit trace; returns a result dict (status ok|violation, clause, detail, digest, stats, trace)."""
    if trace.get('mode') == 'enum' and trace.get('force_expiry') is None:
        return _execute_enum(trace)
    return _execute_one(trace)


def _execute_one(trace):
    sim, ctx, outcomes = run_scenario(trace)
    viol = ref_tl.check(sim, ctx, outcomes, trace, INTERRUPT_NAMES)
    stats = collections.Counter(sim.stats)
    stats['steps'] = sim.steps
    stats['calls'] = len(trace['calls'])
    for o in outcomes:
        stats['outcome:' + o[0] + (':' + str(o[1]) if o[0] == 'exc' else '')] += 1
    for cid, h in ctx.hist.items():
        for e in h:
            if e[0] == 'absorbed':
                stats['fault:interrupt_absorbed'] += 1
    for cid, h in ctx.hist.items():
        inv = [e for e in h if e[0] == 'invoke']
        fe = [e for e in h if e[0] == 'fend']
        if '.' in cid:
            stats['fault:nested_call'] += 1
        if fe and fe[-1][3] == 'exc' and fe[-1][4] == 'WorkerDeath':
            stats['fault:worker_death'] += 1
    stats['fault:expiry'] = sum(1 for w in sim.timed_waits.values() for e in w if e[1] is None)
    leaked = [n for n in sim.alive_names() if n != 'main']
    stats['probe:leaked_threads_at_end'] = len(leaked)
    out_trace = dict(trace)
    if trace.get('schedule') is None:
        out_trace = copy.deepcopy(trace)
        d = list(sim.decisions)
        while d and d[-1] is None:
            d.pop()
        out_trace['schedule'] = d
    res = {'status': 'violation' if viol else 'ok', 'digest': sim.digest(), 'stats': dict(stats),
           'sim_time': sim.now, 'interleaving': sim.interleave.hexdigest()[:16],
           'outcomes': [list(map(str, o)) for o in outcomes], 'nontrivial_key': _ntkey(trace, sim, stats)}
    if viol:
        res['clause'] = viol[0]
        res['detail'] = viol[1]
        res['trace'] = out_trace
        res['sig_extra'] = _sig_extra(viol, ctx)
    return res


def _sig_extra(viol, ctx):
    """For C19/still-running: where was the thread that waits in the nested run_timeout when the enclosing limiter's
    interrupt was sent to it - blocked in the timed wait ('blocked:event'), or executing run_timeout's own set-up /
    clean-up code ('runnable'), ..."""
    if viol[0] == 'C19/no-outcome' and 'deadlock:' in viol[1]:
        # shape of the deadlock: a thread that was itself the target of an (enclosing) interrupt joins a pool thread that
        # sits idle in the pool's task queue - the pool was never terminated, so that thread never exits
        st_ = dict(x.split('=', 1) for x in viol[1].split('deadlock:', 1)[1].split(',') if '=' in x)
        targeted = {t[2] for t in ctx.async_targets}
        for name, state in st_.items():
            if state.startswith('blocked/join:'):
                w = state.split(':', 1)[1]
                if name in targeted and st_.get(w) == 'blocked/queue':
                    return ['interrupted-waiter-joins-idle-pool-thread']
        return None
    if viol[0] != 'C19/still-running':
        return None
    states = set()
    for cid, h in ctx.hist.items():
        out = next((e for e in h if e[0] == 'outcome'), None)
        if out is None or not out[4]:
            continue
        for sub in out[4]:
            inv = next((e for e in ctx.hist[sub] if e[0] == 'invoke'), None)
            if inv is None:
                continue
            for t in ctx.async_targets:
                if t[2] == inv[3]:
                    states.add(t[3])
    return sorted(states)


def same_class(res0, res):
    return res.get('clause') == res0.get('clause') and res.get('sig_extra') == res0.get('sig_extra')


def _ntkey(trace, sim, stats):
    """Key for distinct_nontrivial: a run is non-trivial if a deadline expired, an interrupt was sent or absorbed, a
    worker died, or completion and expiry were within one tick; distinct = distinct (programs, interleaving) pair."""
    nontrivial = stats.get('fault:expiry', 0) + stats.get('async_exc_sent', 0) + stats.get('fault:worker_death', 0) \
        + stats.get('fault:interrupt_absorbed', 0) + stats.get('fault:nested_call', 0)
    if not nontrivial:
        return None
    return repr(trace['calls']) + repr(trace.get('force_expiry')) + sim.interleave.hexdigest()[:16]


def _execute_enum(trace):
    """Fault enumeration: dry run to count delivery points of the worker inside the function, then one simulation per
    expiry position j = 1..J (same process, fresh Sim each)."""
    dry = copy.deepcopy(trace)
    dry['count_yields'] = 0
    dry['mode'] = 'one'
    sim, ctx, outcomes = run_scenario(dry)
    J = sim.yields_in_target
    agg = collections.Counter()
    digests = [sim.digest()]
    first = None
    keys = []
    inter = []
    sim_time = sim.now
    for j in range(1, J + 1):
        t = copy.deepcopy(trace)
        t['mode'] = 'one'
        t['force_expiry'] = {'call': 0, 'at': j}
        r = _execute_one(t)
        for k, v in r['stats'].items():
            agg[k] += v
        digests.append(r['digest'])
        sim_time += r['sim_time']
        inter.append(r['interleaving'])
        if r['nontrivial_key']:
            keys.append(r['nontrivial_key'])
        if r['status'] == 'violation' and first is None:
            first = r
    agg['enum_positions'] = J
    agg['enum_programs'] = 1
    import hashlib
    res = {'status': 'ok', 'digest': hashlib.sha256(''.join(digests).encode()).hexdigest(), 'stats': dict(agg),
           'sim_time': sim_time, 'interleaving': inter, 'outcomes': [], 'nontrivial_key': keys, 'sub_runs': J + 1}
    if first is not None:
        res.update(status='violation', clause=first['clause'], detail=first['detail'], trace=first['trace'], sig_extra=first.get('sig_extra'))
    return res


# ---------------------------------------------------------------------------------------------------------------------
# shrinking and signatures

def _prog_variants(prog):
    """Smaller programs: drop a step, unwrap swallow/nested, reduce loop counts and tick counts."""
    for i in range(len(prog)):
        if len(prog) > 1:
            yield prog[:i] + prog[i + 1:]
        s = prog[i]
        if s[0] == 'swallow':
            yield prog[:i] + s[2] + prog[i + 1:]
            for v in _prog_variants(s[2]):
                yield prog[:i] + [['swallow', s[1], v]] + prog[i + 1:]
        elif s[0] == 'nested':
            for v in _prog_variants(s[2]):
                yield prog[:i] + [['nested', s[1], v]] + prog[i + 1:]
        elif s[0] == 'loop' and s[1] > 1:
            yield prog[:i] + [['loop', 1]] + prog[i + 1:]
        elif s[0] == 'work' and s[2] > 1:
            yield prog[:i] + [['work', s[1], 1]] + prog[i + 1:]
            yield prog[:i] + [['native', s[1]]] + prog[i + 1:]


def shrink_candidates(trace):
    t = trace
    calls = t['calls']
    fe = t.get('force_expiry')
    for i in range(len(calls)):
        if len(calls) > 1 and not (fe and fe['call'] == i):
            c = copy.deepcopy(t)
            del c['calls'][i]
            if fe and fe['call'] > i:
                c['force_expiry']['call'] -= 1
            yield c
    for i in range(len(calls)):
        for v in _prog_variants(calls[i]['prog']):
            c = copy.deepcopy(t)
            c['calls'][i]['prog'] = v
            yield c
    if t['config'].get('arm_pool'):
        c = copy.deepcopy(t)
        c['config']['arm_pool'] = False
        yield c
    if fe and fe['at'] > 1:
        c = copy.deepcopy(t)
        c['force_expiry']['at'] = fe['at'] - 1
        yield c
    sched = t.get('schedule') or []
    n = len(sched)
    if n:
        c = copy.deepcopy(t)
        c['schedule'] = []
        yield c
        size = n // 2
        while size >= 1:
            for start in range(0, n, size):
                if any(x is not None for x in sched[start:start + size]):
                    c = copy.deepcopy(t)
                    c['schedule'] = sched[:start] + [None] * len(sched[start:start + size]) + sched[start + size:]
                    while c['schedule'] and c['schedule'][-1] is None:
                        c['schedule'].pop()
                    yield c
            size //= 2


def trace_size(trace):
    def psize(p):
        return sum(1 + (psize(s[2]) if s[0] in ('swallow', 'nested') else 0) + (s[1] if s[0] == 'loop' else 0)
                   + (s[2] if s[0] == 'work' else 0) for s in p)
    return (sum(psize(c['prog']) for c in trace['calls']) * 1000
            + sum(1 for x in (trace.get('schedule') or []) if x is not None) * 10
            + len(trace.get('schedule') or []) + (50 if trace['config'].get('arm_pool') else 0))


def signature(trace, result):
    """Identity of a (minimised) violation: oracle clause + which program features the witness still needs."""
    feats = set()

    def walk(p, depth):
        for s in p:
            if s[0] == 'swallow':
                feats.add('swallow')
                walk(s[2], depth)
            elif s[0] == 'nested':
                feats.add('nested')
                walk(s[2], depth + 1)
            elif s[0] == 'raise':
                feats.add('raise:' + s[1])
    for c in trace['calls']:
        walk(c['prog'], 0)
    return {'clause': result['clause'], 'needs': sorted(feats), 'interrupted_in': result.get('sig_extra')}


def matches_known(known_sig, sig):
    return (known_sig['clause'] == sig['clause'] and known_sig.get('interrupted_in') == sig.get('interrupted_in')
            and set(known_sig.get('needs', [])) <= set(sig.get('needs', [])))


def sample(trace):
    return {'calls': trace['calls'], 'policy': trace['config']['policy'], 'force_expiry': trace.get('force_expiry')}


# ---------------------------------------------------------------------------------------------------------------------
# plan, evidence texts

RULE = ('Runs are generated from VERIF_SEED: (a) scenarios of 1-4 back-to-back run_timeout calls (nested to depth 2) whose '
        'function programs (work/native/loop/raise/swallow/nested) have durations placed far below, one tick below, exactly '
        'at, one tick above and far above the limit, each under a seeded scheduler policy (uniform / sticky / PCT); '
        '(b) expiry-position enumeration: for a zero-duration program the deadline is forced to expire while the worker is '
        'parked at its j-th delivery point, for every j a dry run exhibits. evaluations = simulations completed. A run is '
        'non-trivial if a deadline expired, an asynchronous interrupt was sent or absorbed, a worker died, or a nested '
        'limiter ran; distinct = distinct (programs, forced position, interleaving hash).')
COMPONENTS = {'real': ['adsg_core/optimization/assign_enc/time_limiter.py run_timeout (unmodified)',
                       'multiprocessing.pool Pool/ThreadPool/ApplyResult/worker logic', 'real Python threads',
                       'ctypes PyThreadState_SetAsyncExc and interpreter delivery of the exception', 'gc.collect'],
              'stub': ['threading.Event/Lock/Condition, queue.SimpleQueue, connection.wait, time.sleep as seen by '
                       'multiprocessing.pool (simulated blocking primitives)', 'thread start/join/is_alive bookkeeping',
                       'clock (virtual, discrete-event)', 'choice of the next thread to run (seeded)']}
ASSUMPTIONS = ['Threads switch and asynchronous exceptions are delivered only at CPython eval-breaker points (function '
               'entry/resume, backward jumps, return from C calls) and in blocking calls; C calls are atomic.',
               'A thread blocked in a (simulated) primitive does not see a pending asynchronous exception before it wakes.',
               'Functions are finite and absorb the interrupt at most once; a BaseException that kills the pool worker is '
               'only held to liveness / no-leak / no-cross-talk (either a re-raise or a timeout is accepted).',
               'Simulation samples schedules; only the expiry position for zero-duration programs is enumerated.']
WALL_BUDGET = {'quick': 70.0, 'thorough': 600.0}


def jobs(tier, batch_seed):
    from simkit.driver import std_jobs
    if tier == 'thorough':
        return std_jobs([('generate_enum', 1500), ('generate', 400000)], batch_seed)
    return std_jobs([('generate_enum', 60), ('generate', 12000)], batch_seed)


# ---------------------------------------------------------------------------------------------------------------------
# fidelity of the E1 stubs: tie-free scenarios under E1 and on real threads with the real clock must agree

def fidelity():
    """Runs a fixed set of scenarios whose outcome does not depend on ties (far below / far above the limit, raising,
    absorbing once, native block, worker death) (a) under E1 and (b) on real threads, real ThreadPool, real clock;
    the outcome kinds must agree. Returns a list of (name, e1 outcome, real outcome, agree)."""
    import time
    import multiprocessing.pool as mpool
    scen = [
        ('returns-fast', 0.4, [['work', 0.05, 1], ['ret', 1]]),
        ('raises-fast', 0.4, [['work', 0.05, 1], ['raise', 'value']]),
        ('python-loop-far-above', 0.3, [['work', 1.2, 8], ['ret', 2]]),
        ('native-block-far-above', 0.3, [['native', 1.0], ['ret', 3]]),
        ('absorbs-once-then-returns', 0.3, [['swallow', 'base', [['work', 1.0, 8], ['ret', 4]]], ['work', 0.1, 1], ['ret', 5]]),
        ('worker-death', 0.3, [['raise', 'base']]),
        ('self-timeout', 0.4, [['raise', 'timeout']]),
    ]
    out = []
    for name, limit, prog in scen:
        tr = {'property': PROPERTY, 'engine': ENGINE, 'seed': 0,
              'config': {'policy': ['uniform'], 'arm_pool': False, 'step_cap': 20000, 'time_cap': 10000.0},
              'calls': [{'limit': limit, 'prog': prog}], 'force_expiry': None, 'sched_seed': 7, 'schedule': None}
        sim, ctx, outcomes = run_scenario(tr)
        e1 = outcomes[0][0] + (':' + outcomes[0][1] if outcomes[0][0] == 'exc' else '')
        out.append([name, e1, None, None])
    # real execution: the shims are removed, the same programs run with time.sleep / busy loops
    st.uninstall()
    st.deactivate()

    def real_prog(prog, state):
        for step in prog:
            op = step[0]
            if op == 'work':
                t_end = time.monotonic() + step[1]
                while time.monotonic() < t_end:
                    pass
            elif op == 'native':
                time.sleep(step[1])
            elif op == 'ret':
                return f'v:{step[1]}'
            elif op == 'raise':
                raise {'value': ValueError, 'timeout': TimeoutError, 'base': WorkerDeath}[step[1]]('e')
            elif op == 'swallow':
                try:
                    r = real_prog(step[2], state)
                    if r is not None:
                        return r
                except BaseException as e:
                    if not _is_interrupt(e):
                        raise
                    state['absorbed'] = True
        return None

    import threading as _t
    saved_hook = _t.excepthook
    _t.excepthook = lambda a: None
    try:
        for row, (name, limit, prog) in zip(out, scen):
            state = {}
            try:
                v = _tl.run_timeout(limit, lambda: real_prog(prog, state))
                real = 'ret'
            except TimeoutError:
                real = 'exc:TimeoutError'
            except BaseException as e:
                real = 'exc:' + type(e).__name__
            row[2] = real
            row[3] = (row[1] == real)
    finally:
        _t.excepthook = saved_hook
        st.install()
    return out
