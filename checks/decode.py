"""Shared implementation of C01 / C14 (engine E2): processors put into their fault-chosen modes (fast encoder through an
injected time-limit kill or MemoryError, memory-save mode, explicitly requested fast encoder) and every decode checked
against the reference semantics R-sem (+ R-conn for connection edges)."""
import copy
import random
import hashlib
import itertools
import collections

import numpy as np

from simkit import gen_dsg, hashorder, simenv, ref_conn
from simkit.ref_sem import Spec
from simkit.rng import Streams
from checks.session import spec_features, shrink_spec

ENGINE = 'E2'
LEVEL = 'exploration'
RUN_TIMEOUT_S = 300.0
REPO = None


def warmup():
    global REPO
    import os
    import adsg_core
    REPO = os.path.dirname(os.path.dirname(os.path.abspath(adsg_core.__file__)))
    import adsg_core.optimization.graph_processor  # noqa
    simenv.setup(REPO)
    simenv.install_limiter()
    import adsg_core.optimization.assign_enc.selector as sel
    from simkit import gen_settings
    with simenv.RunEnv(1):  # compile the numba kernels once, in the parent (8% of the runs have a connection choice)
        st_, _ = gen_settings.build({'src': [{'conns': [1, 2], 'rep': False}],
                                     'tgt': [{'conns': [0, 1], 'rep': False}, {'conns': [0, 1], 'rep': False}],
                                     'excluded': [], 'patterns': None})
        sel.EncoderSelector(st_).get_best_assignment_manager(cache=False)
    simenv.reset()
    return {'interrupt_type_injected': 'SystemError (probed from the real limiter by C19 / E1)'}


class Viol(Exception):
    def __init__(self, clause, detail):
        super().__init__(clause)
        self.clause = clause
        self.detail = detail


# ---------------------------------------------------------------------------------------------------------------------
# reference: admitted architectures

def admitted(spec_obj):
    """[(closure frozenset, [set of valid matrices per connection choice])] for every admissible assignment whose
    connection scenarios all have a valid connection set."""
    out = []
    for nodes, assign in spec_obj.enumerate(limit=4000):
        mats = []
        ok = True
        for cc in spec_obj.conn:
            st, pat, sn, tn = spec_obj.conn_settings(cc, nodes)
            m = ref_conn.matrices(st, pat)
            if not m:
                ok = False
                break
            mats.append((cc['id'], sn, tn, set(m)))
        if ok:
            out.append((frozenset(nodes), mats))
    return out


def conn_matrix(spec_obj, cc, g):
    """Connection matrix of an instance for one connection choice, from its CONNECTS edges."""
    from adsg_core.graph.graph_edges import get_edge_type, EdgeType
    sn = [c.get('name') or c['group'] for c in cc['src']]
    tn = [c.get('name') or c['group'] for c in cc['tgt']]
    m = [[0] * len(tn) for _ in sn]
    stray = []
    for e in g.graph.edges(keys=True, data=True):
        if get_edge_type(e) != EdgeType.CONNECTS:
            continue
        a, b = gen_dsg.label(e[0]), gen_dsg.label(e[1])
        if a in sn and b in tn:
            m[sn.index(a)][tn.index(b)] += 1
        elif a in sn or b in tn:
            stray.append((a, b))
    return tuple(tuple(r) for r in m), stray


def check_instance(prop, spec_obj, adm, g, x, xi, act, dvs):
    """Clauses of C01 on one decode result; returns the architecture key (nodes, matrices)."""
    from adsg_core.graph.adsg_nodes import ChoiceNode
    if len(xi) != len(dvs) or len(act) != len(dvs):
        raise Viol(f'{prop}/vector-length', f'x={x}: corrected vector has {len(xi)} entries, declared {len(dvs)}')
    for k, (v, d) in enumerate(zip(xi, dvs)):
        if d.is_discrete:
            if not (0 <= v < d.n_opts) or int(v) != v:
                raise Viol(f'{prop}/corrected-out-of-range', f'x={x}: variable {d.name} corrected to {v}, {d.n_opts} options')
        elif not (d.bounds[0] <= v <= d.bounds[1]):
            raise Viol(f'{prop}/corrected-out-of-range', f'x={x}: variable {d.name} corrected to {v}, bounds {d.bounds}')
    if g is None:
        return None
    if not g.feasible:
        raise Viol(f'{prop}/instance-infeasible', f'x={x}: decoded instance is reported infeasible')
    left = [gen_dsg.label(n) for n in g.graph.nodes if isinstance(n, ChoiceNode)]
    if left or not g.final:
        raise Viol(f'{prop}/instance-not-final', f'x={x}: decoded instance still contains choices {left}')
    nodes = frozenset(gen_dsg.observe_nodes(g))
    cands = [a for a in adm if a[0] == nodes]
    if not cands:
        # closest admitted closure, for the message
        best = min(adm, key=lambda a: len(a[0] ^ nodes)) if adm else None
        raise Viol(f'{prop}/not-an-admitted-architecture',
                   f'x={x}: node set is not the closure of any admissible assignment'
                   + (f'; nearest closure differs by missing {sorted(best[0] - nodes)} extra {sorted(nodes - best[0])}'
                      if best else '; R-sem admits no architecture at all'))
    key_m = []
    for cc in spec_obj.conn:
        m, stray = conn_matrix(spec_obj, cc, g)
        if stray:
            raise Viol(f'{prop}/stray-connection-edge', f'x={x}: connection edges {stray} do not join a source and a target')
        valid = next(v for (cid, sn, tn, v) in cands[0][1] if cid == cc['id'])
        if m not in valid:
            raise Viol(f'{prop}/invalid-connection-set', f'x={x}: connection matrix {m} of {cc["id"]} is not valid for the '
                                                         f'connectors present ({len(valid)} valid sets)')
        key_m.append(m)
    for n, v in g.des_var_values.items():
        if n.bounds is not None and not (n.bounds[0] <= v <= n.bounds[1]):
            raise Viol(f'{prop}/design-variable-out-of-range', f'x={x}: {gen_dsg.label(n)} = {v}, bounds {n.bounds}')
        if n.options is not None and not (0 <= v < len(n.options)):
            raise Viol(f'{prop}/design-variable-out-of-range', f'x={x}: {gen_dsg.label(n)} = {v}, {len(n.options)} options')
    return (nodes, tuple(key_m))


# ---------------------------------------------------------------------------------------------------------------------

def make_processor(spec, ids_seed, mode, stats):
    """mode: {'kind': 'default'|'fast'|'complete'|'kill'|'mem'|'memsave', 'frac': f}"""
    from adsg_core.optimization.graph_processor import GraphProcessor, SelChoiceEncoderType
    hashorder.reseed(ids_seed)
    built = gen_dsg.build(spec)
    kind = mode['kind']
    kw = {}
    if kind == 'fast':
        kw['encoder_type'] = SelChoiceEncoderType.FAST
    elif kind == 'complete':
        kw['encoder_type'] = SelChoiceEncoderType.COMPLETE
    simenv.reset()
    p = GraphProcessor(built.dsg, **kw)
    if kind == 'kill':
        # dry run on a second processor to learn the number of delivery points of the encoding call
        hashorder.reseed(ids_seed + 1)
        b2 = gen_dsg.build(spec)
        p2 = GraphProcessor(b2.dsg)
        simenv.reset()
        try:
            _ = p2.encoder_type
        except Exception:
            pass
        enc_calls = [c for c in simenv.State.calls if c[1].startswith('graph_processor.py:_get_hierarchy_analyzer')]
        K = enc_calls[0][2] if enc_calls else 1
        k = 1 + int(mode['frac'] * max(0, K - 1))
        # the fault is transient in half of the runs (only the first analysis is cut short - whatever asks for another
        # analysis later gets a complete one) and persistent in the others (every analysis is cut short)
        seen = [0]
        transient = mode['frac'] * 1000 % 2 < 1

        def plan(idx, site):
            if site.startswith('graph_processor.py:_get_hierarchy_analyzer'):
                seen[0] += 1
                if seen[0] == 1 or not transient:
                    return k
            return None
        simenv.reset(plan)
        stats['kill_points_existing'] = K
        stats['probe:transient_fault' if transient else 'probe:persistent_fault'] += 1
    elif kind == 'mem':
        seen = [0]
        transient = mode['frac'] * 1000 % 2 < 1

        def plan(idx, site):
            if site.startswith('graph_processor.py:_get_hierarchy_analyzer'):
                seen[0] += 1
                if seen[0] == 1 or not transient:
                    return ('raise', MemoryError)
            return None
        simenv.reset(plan)
        stats['probe:transient_fault' if transient else 'probe:persistent_fault'] += 1
    try:
        if kind == 'memsave':
            _ = p.encoder_type
            simenv.plan_memfault(1 + int(mode['frac'] * 6))
        dvs = p.des_vars  # triggers encoding (and, for connection choices, encoder selection)
    finally:
        fired = simenv.State.mem_fired
        calls = list(simenv.State.calls)
        simenv.clear_memfault()
        simenv.State.plan = None
    for c in calls:
        if c[3] == 'killed':
            stats['fault:limiter_kill'] += 1
        if c[3].startswith('injected:'):
            stats['fault:injected_memory_error_in_encoding'] += 1
    stats['fault:memory_error_in_des_vars'] += fired
    enc = p.encoder_type.name
    stats['mode:' + kind + '->' + enc + ('+memsave' if getattr(p, '_memory_save_mode', False) else '')] += 1
    return p, dvs, enc


def vectors(dvs, rng, limit_exh, n_sample):
    opts = []
    space = 1
    for d in dvs:
        if d.is_discrete:
            opts.append(list(range(d.n_opts)))
        else:
            lo, hi = d.bounds
            opts.append([lo, hi, lo + 0.37 * (hi - lo)])
        space *= len(opts[-1])
    if space <= limit_exh:
        return [list(v) for v in itertools.product(*opts)], True
    return [[rng.choice(o) for o in opts] for _ in range(n_sample)], False


def run_decodes(prop, spec_obj, adm, p, dvs, vecs, stats, both_flags=True):
    table = {}
    reached = set()
    for i, x in enumerate(vecs):
        try:
            g, xi, act = p.get_graph(list(x), create=True)
        except Exception as e:
            import traceback
            tb = traceback.extract_tb(e.__traceback__)
            inner = next((f for f in reversed(tb) if '/adsg_core/' in f.filename), None)
            where = f'{inner.filename.split("/adsg_core/")[-1]}:{inner.name}' if inner else '?'
            msg = '-'.join(''.join(ch for ch in str(e) if ch.isalpha() or ch == ' ').split()[:4])
            if not adm:
                stats['probe:explicit_error_on_empty_space'] += 1
                table[tuple(x)] = ('exc', type(e).__name__)
                continue
            raise Viol(f'{prop}/decode-raises/{type(e).__name__}:{msg}@{where}',
                       f'x={x}: {type(e).__name__}: {str(e)[:200]} although R-sem admits {len(adm)} architectures')
        stats['decodes'] += 1
        key = check_instance(prop, spec_obj, adm, g, x, xi, act, dvs)
        reached.add(key)
        table[tuple(x)] = (tuple(float(v) for v in xi), tuple(bool(a) for a in act), key)
        if both_flags and i % 3 == 0:
            try:
                g2, xi2, act2 = p.get_graph(list(x), create=False)
            except Exception as e:
                import traceback
                tb = traceback.extract_tb(e.__traceback__)
                inner = next((f for f in reversed(tb) if '/adsg_core/' in f.filename), None)
                where = f'{inner.filename.split("/adsg_core/")[-1]}:{inner.name}' if inner else '?'
                msg = '-'.join(''.join(ch for ch in str(e) if ch.isalpha() or ch == ' ').split()[:4])
                raise Viol(f'{prop}/decode-raises/{type(e).__name__}:{msg}@{where}',
                           f'x={x} create=False: {type(e).__name__}: {str(e)[:200]}')
            check_instance(prop, spec_obj, adm, g2, x, xi2, act2, dvs)
            if prop == 'C05' and (tuple(float(v) for v in xi2), tuple(bool(a) for a in act2)) != table[tuple(x)][:2]:
                raise Viol(f'{prop}/create-flag-changes-result', f'x={x}: create=True gives {table[tuple(x)][:2]}, '
                                                                 f'create=False {xi2}/{act2}')
    return table, reached


def execute(prop, trace):
    log = []
    stats = collections.Counter()
    res = {'status': 'ok'}
    hashorder.install(trace['ids_seed'])
    simenv.reset()
    try:
        with simenv.RunEnv(trace['env_seed']):
            try:
                _run(prop, trace, log, stats)
            except Viol as v:
                res = {'status': 'violation', 'clause': v.clause, 'detail': v.detail}
            except Exception as e:
                import traceback
                tb = traceback.extract_tb(e.__traceback__)
                inner = next((f for f in reversed(tb) if '/adsg_core/' in f.filename), None)
                if inner is None:
                    raise
                where = f'{inner.filename.split("/adsg_core/")[-1]}:{inner.name}'
                res = {'status': 'violation', 'clause': f'{prop}/crash/{type(e).__name__}@{where}',
                       'detail': f'{type(e).__name__}: {e}'[:600]}
    finally:
        hashorder.uninstall()
        simenv.reset()
    h = hashlib.sha256()
    for e in log:
        h.update(repr(e).encode())
    h.update(repr(res.get('clause')).encode())
    res['digest'] = h.hexdigest()
    res['stats'] = dict(stats)
    res['trace'] = trace
    res['nontrivial_key'] = None
    if stats.get('decodes', 0) >= 2 and stats.get('rsem_admitted', 0) >= 2:
        res['nontrivial_key'] = hashlib.sha256(repr((trace['spec'], trace['mode'])).encode()).hexdigest()[:20]
    res['interleaving'] = None
    return res


def _run(prop, trace, log, stats):
    spec = trace['spec']
    spec_obj = Spec(spec)
    adm = admitted(spec_obj)
    stats['rsem_admitted'] = len(adm)
    mode = trace['mode']
    try:
        p, dvs, enc = make_processor(spec, trace['ids_seed'], mode, stats)
    except (RuntimeError, ValueError) as e:
        msg = str(e)
        explicit = ('not feasible to begin with' in msg) or ('no feasible graphs' in msg.lower())
        log.append(('construction-failed', type(e).__name__, explicit))
        stats['probe:construction_failed'] += 1
        if adm:
            import traceback
            tb = traceback.extract_tb(e.__traceback__)
            inner = next((f for f in reversed(tb) if '/adsg_core/' in f.filename), None)
            where = f'{inner.filename.split("/adsg_core/")[-1]}:{inner.name}' if inner else '?'
            m = '-'.join(''.join(ch for ch in msg if ch.isalpha() or ch == ' ').split()[:4])
            raise Viol(f'{prop}/construction-fails/{type(e).__name__}:{m}@{where}',
                       f'mode {mode}: {type(e).__name__}: {msg[:200]} although R-sem admits {len(adm)} architectures')
        return
    log.append(('constructed', enc, tuple(d.name for d in dvs)))
    if prop == 'C14' and enc != 'FAST':
        stats['probe:not_fast'] += 1
        return
    rng = random.Random(trace['vec_seed'])
    vecs, exhaustive = vectors(dvs, rng, trace.get('limit_exh', 300), trace.get('n_sample', 120))
    table, reached = run_decodes(prop, spec_obj, adm, p, dvs, vecs, stats)
    log.append(('decoded', len(vecs), exhaustive, len(reached)))
    if not adm:
        return
    if prop == 'C14':
        # (c) a corrected vector is a valid vector: decoding it returns it unchanged
        for x, row in list(table.items()):
            if row[0] == 'exc':
                continue
            xi = row[0]
            g, xi2, act2 = p.get_graph(list(xi), create=True)
            if tuple(float(v) for v in xi2) != xi:
                raise Viol('C14/valid-vector-changed', f'decode({list(x)}) = {list(xi)}; decoding that corrected vector '
                                                       f'gives {list(xi2)}')
        # (d) independence of the order in which vectors are presented
        p2, dvs2, enc2 = make_processor(spec, trace['ids_seed'] + 7, mode, collections.Counter())
        order = list(vecs)
        random.Random(trace['vec_seed'] + 1).shuffle(order)
        table2, reached2 = run_decodes(prop, spec_obj, adm, p2, dvs2, order, collections.Counter(), both_flags=False)
        for x in table:
            if table[x] != table2[x]:
                raise Viol('C14/order-dependent-decode', f'x={list(x)} decodes to {table[x][:2]} in one presentation order '
                                                         f'and to {table2[x][:2]} in another')
        stats['order_pairs'] += len(table)
        # (b) coverage against R-sem and the complete encoder
        if exhaustive:
            want = {(a[0]) for a in adm}
            got = {k[0] for k in reached if k is not None}
            missing = [sorted(w) for w in want - got]
            if missing:
                tag = ''
                if spec.get('constraints'):
                    # are all missing architectures ones in which a choice constraint actually binds (>= 2 members of a
                    # constrained group active together)? Otherwise the loss has nothing to do with constrained combinations
                    by_nodes = {}
                    for nodes, a in spec_obj.enumerate(limit=4000):
                        by_nodes.setdefault(frozenset(nodes), []).append(a)
                    if all(any(sum(1 for c in cids if c in a) >= 2 for a in by_nodes.get(w, [])
                               for _, cids in spec['constraints']) for w in want - got):
                        tag = '[constrained-combinations-only]'
                raise Viol('C14/architecture-unreachable' + tag,
                           f'{len(missing)} admitted architectures are not the decode of any '
                           f'vector of the fast encoder, e.g. nodes {missing[0]}')
            try:
                pc, dvc, encc = make_processor(spec, trace['ids_seed'] + 13, {'kind': 'complete'}, collections.Counter())
                res = pc.get_all_discrete_x()
                gotc = set()
                if res is not None:
                    for row in res[0]:
                        g, _, _ = pc.get_graph([float(v) for v in row], create=True)
                        gotc.add(frozenset(gen_dsg.observe_nodes(g)))
            except Exception:
                res = None  # the complete encoder itself fails on this graph: nothing to compare with (not C14's subject)
                stats['probe:complete_twin_failed'] += 1
            if res is not None:
                if gotc != got:
                    raise Viol('C14/differs-from-complete-encoder',
                               f'fast encoder reaches {len(got)} node sets, complete encoder {len(gotc)}; only fast '
                               f'{[sorted(s) for s in got - gotc][:2]}, only complete {[sorted(s) for s in gotc - got][:2]}')
            stats['coverage_checked'] += 1


def generate(prop, seed, tier, modes, conn_share=0.0, constraint_share=0.0):
    s = Streams(seed)
    rng = s('gen')
    spec = gen_dsg.gen_tree_spec(rng, n_incompat_max=rng.choice([0, 0, 3]), max_choices=rng.choice([0, 2, 3, 4, 4, 4]))
    if len(spec['sel']) >= 2 and rng.random() < 0.3:
        # blocked options: some options of one choice are incompatible with every option of another choice, so vectors
        # that pick them have to be corrected to a (possibly distant) neighbour
        a, b = rng.sample(spec['sel'], 2)
        if len(b[2]) > len(a[2]):
            a, b = b, a
        blocked = rng.sample(a[2], rng.randint(1, max(1, len(a[2]) - 1)))
        if rng.random() < 0.6:
            blocked = a[2][-max(len(blocked), min(2, len(a[2]) - 1)):]  # the highest option indices
        for x in blocked:
            for y in b[2]:
                if x != y and [x, y] not in spec['incompat'] and [y, x] not in spec['incompat']:
                    spec['incompat'].append([x, y])
    spec = gen_dsg.clean_incompat(spec)
    if constraint_share and rng.random() < constraint_share:
        # half of the linked groups stay among permanently active choices, the others may contain conditionally active
        # members (the group always has a permanent anchor)
        spec = gen_dsg.add_linked_constraint(rng, spec, hierarchical=rng.random() < 0.5)
        if spec.get('constraints'):
            spec['incompat'] = []  # linked choices are not combined with incompatibilities (fast-encoder quirks, 9.3)
    spec = gen_dsg.add_dv_metrics(rng, spec, n_metric_max=0)
    if conn_share and rng.random() < conn_share:
        if rng.random() < 0.5:
            spec = gen_dsg.add_conn_choice(rng, spec, p_group=0.0)
        else:  # two small connection choices: the infeasible scenarios of each have to be excluded
            for k in range(2):
                spec = gen_dsg.add_conn_choice(rng, spec, cid=f'X{k}', p_group=0.0, max_side=2)
    mode = {'kind': rng.choice(modes), 'frac': round(rng.random(), 4)}
    has_conn = bool(spec.get('conn'))
    return {'property': prop, 'engine': ENGINE, 'seed': seed, 'spec': spec, 'mode': mode,
            'ids_seed': s.int_seed('ids'), 'env_seed': s.int_seed('env'), 'vec_seed': s.int_seed('vec'),
            'limit_exh': (100 if has_conn else 300) if tier == 'quick' else (600 if has_conn else 2000),
            'n_sample': (40 if has_conn else 120) if tier == 'quick' else (150 if has_conn else 400)}


def shrink_candidates(trace):
    t = trace
    if t['mode']['kind'] not in ('default', 'fast'):
        c = copy.deepcopy(t)
        c['mode'] = {'kind': 'fast' if t['property'] == 'C14' else 'default', 'frac': 0.0}
        yield c
    if t['mode'].get('frac'):
        c = copy.deepcopy(t)
        c['mode']['frac'] = 0.0
        yield c
    for i in range(len(t['spec'].get('conn', []))):
        c = copy.deepcopy(t)
        del c['spec']['conn'][i]
        yield c
        cc = t['spec']['conn'][i]
        for side in ('src', 'tgt'):
            for k in range(len(cc[side])):
                if len(cc[side]) > 1 and not (side == 'src' and k == 0):
                    c = copy.deepcopy(t)
                    gone = cc[side][k].get('name') or cc[side][k]['group']
                    del c['spec']['conn'][i][side][k]
                    c['spec']['conn'][i]['exclude'] = [e for e in cc['exclude'] if gone not in e]
                    yield c
                if 'group' in cc[side][k]:
                    c = copy.deepcopy(t)
                    m = cc[side][k]['members'][0]
                    c['spec']['conn'][i][side][k] = m
                    c['spec']['conn'][i]['exclude'] = [e for e in cc['exclude'] if cc[side][k]['group'] not in e]
                    yield c
        for k in range(len(cc['exclude'])):
            c = copy.deepcopy(t)
            del c['spec']['conn'][i]['exclude'][k]
            yield c
    if not t['spec'].get('conn'):
        yield from shrink_spec(t)
    else:
        for c in shrink_spec(t):
            hosts = {m['host'] for cc in c['spec']['conn'] for side in ('src', 'tgt') for x in cc[side]
                     for m in (x['members'] if 'group' in x else [x])}
            if hosts <= set(c['spec']['nodes']):
                yield c


def trace_size(trace):
    s = trace['spec']
    return (len(s['nodes']) * 20 + len(s['derive']) * 10 + sum(10 + 5 * len(c[2]) for c in s['sel'])
            + len(s['incompat']) * 10 + len(s.get('dv', [])) * 10
            + sum(40 + 15 * (len(cc['src']) + len(cc['tgt'])) + 5 * len(cc['exclude'])
                  + 10 * sum(1 for x in cc['src'] + cc['tgt'] if 'group' in x) for cc in s.get('conn', []))
            + (15 if trace['mode']['kind'] not in ('default', 'fast') else 0) + (3 if trace['mode'].get('frac') else 0))


def signature(trace, result):
    return {'clause': result['clause'], 'needs': spec_features(trace['spec']), 'mode': trace['mode']['kind']}


def matches_known(known_sig, sig):
    return (known_sig['clause'] == sig['clause'] and set(known_sig.get('needs', [])) <= set(sig.get('needs', []))
            and known_sig.get('mode') in (None, sig.get('mode')))


def sample(trace):
    return {'spec': trace['spec'], 'mode': trace['mode']}


COMPONENTS = {'real': ['adsg_core GraphProcessor, complete and fast hierarchy analyzers, encoder selection and all '
                       'connection encoders, DSG graph code'],
              'stub': ['run_timeout -> virtual limiter (kills the complete analysis at a drawn delivery point / makes it '
                       'raise MemoryError)', 'MemoryError injected at allocating numpy calls (memory-save mode)',
                       'identity of id-less nodes (seeded)', 'private cache directory, seeded np.random']}
ASSUMPTIONS = ['R-sem / R-conn are the documented semantics; at least one source connector of a connection choice is '
               'permanent (the choice is always active); of the choice constraints only LINKED is generated (between selection '
               'choices, at least one of them permanently active).',
               'Declared spaces are decoded exhaustively up to 300 (quick) / 2000 (thorough) vectors, else sampled.',
               'Small graphs (<= 12 named nodes, <= 4 selection choices, <= 1 connection choice of <= 3x3 or 2 of <= 2x2 connectors).']
