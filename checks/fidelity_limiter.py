"""Fidelity of the virtual limiter (engine E2) against the real limiter under engine E1.

For a repo function with durable side effects (computing and caching an aggregate connection matrix in a private cache
directory) and sampled delivery points k: (a) `vlimiter` kills the function at delivery point k; (b) the *real*
run_timeout runs the same function on the real ThreadPool under E1, and its deadline is forced to expire while the worker
is parked at its k-th switch point inside the function, so that the real asynchronous exception is delivered there.
Outcome and files left on disk (names and sizes) must agree."""
import os
import sys
import shutil
import random
import tempfile
import collections


def _files(d):
    out = []
    for root, _, files in os.walk(d):
        for f in sorted(files):
            p = os.path.join(root, f)
            name = os.path.relpath(p, d)
            if name.endswith('.tmp'):
                name = name.rsplit('.', 2)[0] + '.<pid>.tmp'
            out.append((name, os.path.getsize(p)))
    return sorted(out)


SPEC = {'src': [{'conns': [1, 2], 'rep': False}, {'conns': [0, 1], 'rep': True}],
        'tgt': [{'conns': [0, 1, 2], 'rep': True}, {'min': 0, 'rep': False}],
        'excluded': [[0, 1]], 'patterns': [{'src': [True, True], 'tgt': [True, True]}, {'src': [True, False], 'tgt': [True, True]}]}


def _make_func():
    from simkit import gen_settings
    from adsg_core.optimization.assign_enc.matrix import AggregateAssignmentMatrixGenerator
    settings, _ = gen_settings.build(SPEC)

    def f():
        gen = AggregateAssignmentMatrixGenerator(settings)
        m = gen.get_agg_matrix(cache=True)
        return sum(v.shape[0] for v in m.values())
    return f


def virt_side(k):
    from simkit import simenv
    d = tempfile.mkdtemp(prefix='vfid-')
    os.environ['XDG_CACHE_HOME'] = d
    try:
        f = _make_func()
        simenv.reset((lambda idx, site: k) if k is not None else None)
        try:
            r = ('ret', simenv.vlimiter(1.0, f))
        except TimeoutError:
            r = ('timeout',)
        n = simenv.State.calls[-1][2]
        simenv.reset()
        return r, _files(d), n
    finally:
        shutil.rmtree(d, ignore_errors=True)


def real_side(k):
    """Real run_timeout under E1; expiry forced at the k-th yield point of the worker inside the function."""
    import types
    import threading
    from simkit import simthread as st
    from simkit.rng import Streams
    import adsg_core.optimization.assign_enc.time_limiter as tl
    d = tempfile.mkdtemp(prefix='vfid-')
    os.environ['XDG_CACHE_HOME'] = d
    try:
        f = _make_func()
        sim = st.Sim(Streams(1)('sched'), policy=('sticky', 1.0), step_cap=2000000)
        state = {'inside': None, 'n': 0, 'done': False}

        def wrapped():
            state['inside'] = sim.me()
            try:
                return f()
            finally:
                state['inside'] = None

        def hook(s, rec, kind):
            if state['done'] or state['inside'] is not rec or kind in ('b', 'set', 'put', 'rel', 'spawn'):
                return
            state['n'] += 1
            if k is not None and state['n'] == k:
                state['done'] = True
                caller = s.main
                if caller.state == 'blocked' and caller.deadline is not None:
                    s.now = max(s.now, caller.deadline)
                    s.force_next = caller
                    # in reality the worker keeps running for the few milliseconds the caller needs to terminate the pool
                    # before it sends the interrupt; to compare with "killed at point k" the worker is held back until
                    # the interrupt has been sent
                    s.frozen.add(rec)
        sim.hooks.append(hook)
        import ctypes

        class _Api:
            def PyThreadState_SetAsyncExc(self, ident, exc):
                r = ctypes.pythonapi.PyThreadState_SetAsyncExc(ident, exc)
                sim.frozen.clear()
                return r

        class _Shim:
            pythonapi = _Api()

            def __getattr__(self, n):
                return getattr(ctypes, n)
        saved_ctypes = tl.ctypes
        tl.ctypes = _Shim()
        saved_hook = threading.excepthook
        threading.excepthook = lambda a: None
        st.activate(sim)
        sim.register_main()
        try:
            try:
                r = ('ret', tl.run_timeout(1.0, wrapped))
            except TimeoutError:
                r = ('timeout',)
        finally:
            st.deactivate()
            threading.excepthook = saved_hook
            tl.ctypes = saved_ctypes
        return r, _files(d), state['n']
    finally:
        shutil.rmtree(d, ignore_errors=True)


def prepare_e1():
    """Make exactly the points the virtual limiter counts switch points of E1: every code object under adsg_core
    (PY_START, PY_RESUME, return from a C call, first line after a backward jump; no C_RAISE)."""
    from simkit import simthread as st
    import adsg_core
    root = os.path.dirname(os.path.abspath(adsg_core.__file__)) + os.sep
    st.arm_prefix(root, c_raise=False)
    st.install()


def run(n_points=24, seed=0):
    from simkit import simenv, runner
    import adsg_core
    simenv.setup(os.path.dirname(os.path.dirname(os.path.abspath(adsg_core.__file__))))
    # dry runs: number of delivery points on both sides
    r0 = runner.fork_call(lambda _: {'status': 'ok', 'v': virt_side(None)}, None, 300.0)['v']

    def real_job(k):
        prepare_e1()
        return {'status': 'ok', 'v': real_side(k)}
    r1 = runner.fork_call(real_job, None, 600.0)['v']
    K = r0[2]
    rows = [{'k': None, 'virtual': [r0[0], r0[1], r0[2]], 'real': [r1[0], r1[1], r1[2]],
             'agree': r0[0] == r1[0] and r0[1] == r1[1] and r0[2] == r1[2]}]
    rng = random.Random(seed)
    pts = sorted({1, 2, 3, K - 1, K} | {rng.randint(1, K) for _ in range(n_points)})
    for k in pts:
        a = runner.fork_call(lambda _: {'status': 'ok', 'v': virt_side(k)}, None, 300.0)['v']
        b = runner.fork_call(real_job, k, 600.0)['v']
        rows.append({'k': k, 'virtual': [a[0], a[1]], 'real': [b[0], b[1]], 'agree': a[0] == b[0] and a[1] == b[1]})
    return {'delivery_points_virtual': r0[2], 'switch_points_real': r1[2], 'rows': rows,
            'all_agree': all(r['agree'] for r in rows)}
