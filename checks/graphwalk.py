"""Shared implementation of C02 / C06: graph-level choice scheduler (engine E2, graph level).

The "schedule" is the caller's: which active selection choice is taken next and with which option, plus the seeded
iteration order of node sets (hashorder seam) that the pruning code walks. Oracle: R-sem closure / enumeration."""
import copy
import random
import hashlib
import collections

from simkit import gen_dsg, hashorder
from simkit.ref_sem import Spec
from simkit.rng import Streams

ENGINE = 'E2-graph'
LEVEL = 'exploration'
RUN_TIMEOUT_S = 120.0


def warmup():
    import adsg_core.graph.adsg_basic  # noqa
    import adsg_core.optimization.assign_enc.matrix  # noqa  (imported lazily by node classes)
    return {}


class Viol(Exception):
    def __init__(self, clause, detail):
        super().__init__(clause)
        self.clause = clause
        self.detail = detail


def _sel_choices(dsg):
    from adsg_core.graph.adsg_nodes import SelectionChoiceNode
    return [c for c in dsg.get_ordered_next_choice_nodes() if isinstance(c, SelectionChoiceNode)]


def _readback(spec_obj, dsg):
    """The option wiring actually present in an instance: origin->option derivation edges that are not spec derivation
    edges (the generator never puts a derivation edge from an origin to one of its own options).
    Returns (wired edge set, {origin: wired options})."""
    from adsg_core.graph.graph_edges import get_edge_type, EdgeType
    present = {gen_dsg.label(n) for n in dsg.graph.nodes}
    edges = set()
    for e in dsg.graph.edges(keys=True, data=True):
        if get_edge_type(e) == EdgeType.DERIVES:
            edges.add((gen_dsg.label(e[0]), gen_dsg.label(e[1])))
    wired = set()
    for cid, (origin, opts) in spec_obj.sel.items():
        if origin not in present:
            continue
        for o in opts:
            if (origin, o) in edges:
                wired.add((origin, o))
    return wired


def _architecture_nodes(spec_obj, dsg, nodes):
    """All node labels of the instance, minus everything that is only reachable from a left-over selection-choice node
    (unchosen options of an unresolved choice and what they derive) and is not confirmed from the start nodes."""
    from adsg_core.graph.adsg_nodes import SelectionChoiceNode
    import networkx as nx
    left = [n for n in dsg.graph.nodes if isinstance(n, SelectionChoiceNode)]
    if not left:
        return set(nodes)
    confirmed = _closure_from_wiring(spec_obj, _readback(spec_obj, dsg)) & set(nodes)
    below = set()
    for c in left:
        below |= {gen_dsg.label(x) for x in nx.descendants(dsg.graph, c)}
    return (set(nodes) - below) | confirmed


def _closure_from_wiring(spec_obj, wired):
    by_origin = {}
    for o, t in wired:
        by_origin.setdefault(o, []).append(t)
    seen = set()
    todo = list(spec_obj.start)
    while todo:
        n = todo.pop()
        if n in seen:
            continue
        seen.add(n)
        todo.extend(spec_obj.derive.get(n, []))
        todo.extend(by_origin.get(n, []))
    return seen


def _match_wiring(spec_obj, nodes, wired):
    """Is there an assignment of exactly one option to every active choice whose wiring is exactly `wired`?
    Returns (assignment or None, reason)."""
    import itertools
    assign = {}
    for origin, cids in spec_obj.sel_by_origin.items():
        w = sorted(t for (o, t) in wired if o == origin)
        if origin not in nodes:
            if w:
                return None, f'options {w} wired to absent originating node {origin}'
            continue
        cands = [[o for o in spec_obj.sel[c][1] if o in w] for c in cids]
        found = None
        for combo in itertools.product(*cands):
            if set(combo) == set(w):
                found = combo
                break
        if found is None:
            if any(not c for c in cands):
                lacking = [c for c, cand in zip(cids, cands) if not cand]
                return None, f'unresolved:{lacking}'
            return None, f'wiring {w} at {origin} is not one option per choice {cids}'
        for c, o in zip(cids, found):
            assign[c] = o
    return assign, ''


def walk(prop, spec_obj, built, order_rng, picks, log, directed=None):
    """One walk. `picks`: explicit list of [choice id, option] decisions to follow as long as they apply (replay /
    shrink); beyond it decisions are drawn from order_rng. `directed`: an R-sem assignment to follow.
    Returns (final dsg, decisions actually made)."""
    dsg = built.dsg
    nodes_by_label = {v: k for k, v in built.nodes.items()}
    cid_of = {id(v): k for k, v in built.choices.items()}
    made = []
    steps = 0
    pi = 0
    while True:
        if not dsg.feasible:
            break  # an infeasible intermediate graph ends the walk (its remaining choices need not be resolvable)
        active = _sel_choices(dsg)
        if not active:
            break
        steps += 1
        if steps > 60:
            raise Viol(f'{prop}/walk-does-not-terminate', 'more than 60 selection choices applied')
        act_ids = []
        for c in active:
            k = cid_of.get(id(c))
            if k is None:
                k = c.decision_id
            act_ids.append(k)
        if directed is not None:
            for k in act_ids:
                if k not in directed:
                    raise Viol(f'{prop}/spurious-active-choice',
                               f'choice {k} is active although its originating node is not in the closure of the '
                               f'followed assignment {sorted(directed.items())} (made so far: {made})')
        # which choice
        choice_idx = None
        if pi < len(picks):
            want_c, want_o = picks[pi]
            if want_c in act_ids:
                choice_idx = act_ids.index(want_c)
            pi += 1
        else:
            want_o = None
        if choice_idx is None:
            choice_idx = order_rng.randrange(len(active))
            want_o = None
        c = active[choice_idx]
        cid = act_ids[choice_idx]
        if c not in dsg.graph.nodes:
            # the library lists a choice as active whose node it has already pruned from a graph it reports feasible
            made_d = dict(made)
            ext = [a for (_, a) in spec_obj.enumerate(partial=made_d, limit=5000)
                   if all(k in a and a[k] == o for k, o in made_d.items())]
            if not ext and spec_obj.incompat:
                raise Viol(f'{prop}/inadmissible-reported-feasible',
                           f'decisions {made} have no admissible completion but the graph is reported feasible; '
                           f'symptom: active choice {cid} is not a node of the graph')
            raise Viol(f'{prop}/active-choice-not-in-graph', f'choice {cid} is listed as active but is not in the graph '
                                                             f'(decisions {made})')
        opts = dsg.get_option_nodes(c)
        opt_labels = [gen_dsg.label(o) for o in opts]
        if prop == 'C06' and spec_obj.incompat:
            # "an option whose selection would necessarily confirm two incompatible nodes is never offered in a feasible
            # result": necessarily confirmed = start nodes, the options decided so far, this option, and everything they
            # derive (choices not decided yet contribute nothing)
            made_d = dict(made)
            for o in opt_labels:
                pair = spec_obj.conflict(spec_obj.closure(dict(made_d, **{cid: o}))[0])
                if pair:
                    # [static]: the option conflicts with what is always present or with what it derives itself, whatever
                    # was decided before - it could have been removed when the graph was initialised
                    own, todo = set(), [o]
                    while todo:
                        x = todo.pop()
                        if x not in own:
                            own.add(x)
                            todo.extend(spec_obj.derive.get(x, []))
                    static = spec_obj.conflict(spec_obj.closure({})[0] | own) is not None
                    raise Viol('C06/conflicting-option-offered' + ('[static]' if static else ''),
                               f'choice {cid} offers {o} although selecting it necessarily confirms the incompatible pair '
                               f'{pair} (decisions so far: {made})')
        if directed is not None:
            tgt = directed[cid]
            if tgt not in opt_labels:
                raise Viol(f'{prop}/option-not-offered',
                           f'admissible architecture {sorted(directed.items())} needs {cid}={tgt} but only '
                           f'{opt_labels} are offered (made so far: {made})')
            oi = opt_labels.index(tgt)
        elif want_o is not None and want_o in opt_labels:
            oi = opt_labels.index(want_o)
        else:
            if not opts:
                raise Viol(f'{prop}/active-choice-without-options', f'choice {cid} is active with no options')
            oi = order_rng.randrange(len(opts))
        made.append([cid, opt_labels[oi]])
        log.append(('apply', cid, opt_labels[oi], tuple(act_ids)))
        dsg = dsg.get_for_apply_selection_choice(c, opts[oi])
    return dsg, made


def check_final(prop, spec_obj, dsg, made, log, directed=None):
    """Oracle clauses on the end of a walk."""
    from adsg_core.graph.adsg_nodes import SelectionChoiceNode
    nodes = set(gen_dsg.observe_nodes(dsg))
    feasible = bool(dsg.feasible)
    log.append(('final', feasible, tuple(sorted(nodes)) if feasible else ()))  # infeasible residue is unspecified
    made_d = dict(made)
    if not feasible:
        if directed is not None:
            raise Viol(f'{prop}/admissible-reported-infeasible',
                       f'followed admissible assignment {sorted(directed.items())} but the result is infeasible')
        # R-sem must agree: no admissible architecture extends the explicit decisions
        ext = spec_obj.enumerate(partial=made_d, limit=5000)
        ext = [a for (_, a) in ext if all(a.get(c) == o for c, o in made_d.items() if c in a)]
        # only decisions on choices that are active in that architecture constrain it; an architecture in which a
        # taken choice is not active is not "the one the walker was building"
        ext = [a for a in ext if all(c in a for c in made_d)]
        if ext:
            raise Viol(f'{prop}/infeasible-but-admissible',
                       f'decisions {made} ended infeasible, but R-sem admits e.g. {sorted(ext[0].items())}')
        return {'feasible': False, 'nodes': nodes}
    if directed is None and spec_obj.incompat:
        # soundness first: decisions without any admissible completion must not end in a result reported feasible
        ext = [a for (_, a) in spec_obj.enumerate(partial=made_d, limit=5000)
               if all(c in a and a[c] == o for c, o in made_d.items())]
        if not ext:
            sym = []
            if [n for n in dsg.graph.nodes if isinstance(n, SelectionChoiceNode)]:
                sym.append('choice-node-left')
            confirmed = _architecture_nodes(spec_obj, dsg, nodes)
            if spec_obj.conflict(confirmed):
                raise Viol(f'{prop}/incompatible-pair-in-feasible',
                           f'{spec_obj.conflict(confirmed)} both present in a result reported feasible (decisions {made})')
            raise Viol(f'{prop}/inadmissible-reported-feasible',
                       f'decisions {made} have no admissible completion (every closure contains an incompatible pair) '
                       f'but the result is reported feasible; nodes {sorted(nodes)} symptoms {sym}')
    if prop != 'C02':
        # C06 states nothing about the closure itself (that is C02): only the incompatibility clauses apply. All nodes of
        # the instance count, except what merely hangs below a selection-choice node that was (wrongly - C02's clause)
        # left unresolved: its unchosen options are not part of the architecture.
        pair = spec_obj.conflict(_architecture_nodes(spec_obj, dsg, nodes))
        if pair:
            raise Viol(f'{prop}/incompatible-pair-in-feasible', f'{pair} both present in a result reported feasible')
        return {'feasible': True, 'nodes': nodes, 'wired': _readback(spec_obj, dsg), 'edges': gen_dsg.observe_edges(dsg)}
    left = [n for n in dsg.graph.nodes if isinstance(n, SelectionChoiceNode)]
    if left:
        raise Viol(f'{prop}/choice-node-left', f'feasible result still contains {[gen_dsg.label(n) for n in left]} '
                                               f'(decisions {made})')
    wired = _readback(spec_obj, dsg)
    closure = _closure_from_wiring(spec_obj, wired)
    assign, why = _match_wiring(spec_obj, closure, wired)
    if assign is None:
        if why.startswith('unresolved:'):
            raise Viol(f'{prop}/active-choice-unresolved',
                       f'choices {why[11:]} have their originating node present but no option wired '
                       f'(wired {sorted(wired)}, decisions {made})')
        raise Viol(f'{prop}/inconsistent-wiring', f'{why} (decisions {made})')
    active = set(assign)
    missing = sorted(closure - nodes)
    extra = sorted(nodes - closure)
    if missing:
        raise Viol(f'{prop}/required-node-missing',
                   f'nodes {missing} are derived by the wired options {sorted(wired)} but absent')
    if extra:
        raise Viol(f'{prop}/unreachable-node-present',
                   f'nodes {extra} are not reachable from the start nodes under the wired options {sorted(wired)}')
    pair = spec_obj.conflict(nodes)
    if pair:
        raise Viol(f'{prop}/incompatible-pair-in-feasible', f'{pair} both present in a result reported feasible')
    if not dsg.final:
        raise Viol(f'{prop}/not-final', 'feasible end of walk is not final')
    if directed is not None:
        want = set(map(tuple, spec_obj.wiring(directed)))
        if wired != want:
            raise Viol(f'{prop}/wrong-architecture', f'followed {sorted(directed.items())} but wired {sorted(wired)}')
    return {'feasible': True, 'nodes': nodes, 'wired': wired, 'edges': gen_dsg.observe_edges(dsg)}


def run_once(prop, trace, ids_seed, log):
    """Build the graph under one identity stream and perform all walks of the trace; returns observations."""
    spec = trace['spec']
    spec_obj = Spec(spec)
    hashorder.install(ids_seed)
    stats = collections.Counter()
    try:
        built = gen_dsg.build(spec, staged=trace.get('staged'))
        log.append(('built', tuple(gen_dsg.observe_nodes(built.dsg)) if built.dsg.feasible else (), bool(built.dsg.feasible)))
        archs = spec_obj.enumerate(limit=3000)
        stats['rsem_architectures'] = len(archs)
        obs = {'random': [], 'directed': []}
        reached = set()
        # (i) random schedules
        for w in trace['walks']:
            rng = random.Random(w['order_seed'])
            fin, made = walk(prop, spec_obj, built, rng, w.get('picks') or [], log)
            o = check_final(prop, spec_obj, fin, made, log)
            o['made'] = made
            obs['random'].append(o)
            stats['walks'] += 1
            stats['probe:walk_infeasible'] += 0 if o['feasible'] else 1
            if o['feasible']:
                reached.add((frozenset(o['nodes']), tuple(sorted(o['wired']))))
        # infeasible only if R-sem's set is empty (initial graph)
        if not built.dsg.feasible and archs and not _sel_choices(built.dsg):
            pass  # covered by check_final of the (empty) walks above
        # (ii) directed schedules: every admissible architecture must be reachable, twice, in different orders
        for k in trace['directed']:
            if k['index'] >= len(archs):
                continue
            nodes_a, assign_a = archs[k['index']]
            pair = []
            for j, oseed in enumerate(k['order_seeds']):
                rng = random.Random(oseed)
                fin, made = walk(prop, spec_obj, built, rng, (k.get('picks') or [[], []])[j], log, directed=assign_a)
                o = check_final(prop, spec_obj, fin, made, log, directed=assign_a)
                wired_fin = _readback(spec_obj, fin)
                never = sorted(c for c in assign_a if c not in {m for m, _ in made}
                               and (spec_obj.sel[c][0], assign_a[c]) not in wired_fin)
                if never:
                    raise Viol(f'{prop}/admissible-unreachable',
                               f'followed admissible assignment {sorted(assign_a.items())}: the result is reported feasible '
                               f'but choices {never} (active under this assignment) were neither offered nor resolved automatically (made {made})')
                if prop == 'C02' and o['nodes'] != set(nodes_a):
                    raise Viol(f'{prop}/wrong-architecture', f'followed {sorted(assign_a.items())}: nodes differ')
                o['made'] = made
                pair.append(o)
                stats['directed_walks'] += 1
            if prop == 'C02' and len(pair) == 2 and (pair[0]['nodes'] != pair[1]['nodes']
                                                       or pair[0]['edges'] != pair[1]['edges']):
                raise Viol(f'{prop}/order-dependent-result',
                           f'orders {pair[0]["made"]} and {pair[1]["made"]} give different instances')
            obs['directed'].append(pair[0] if pair else None)
        # soundness of the reached set
        admissible = {(nodes_a, tuple(sorted(set(map(tuple, spec_obj.wiring(a)))))) for nodes_a, a in archs}
        for r in reached:
            if prop == 'C02' and r not in admissible:
                raise Viol(f'{prop}/reached-inadmissible', f'random walk reached {sorted(r[0])} / {r[1]} which R-sem rejects')
        if archs and not built.dsg.feasible and not trace['walks']:
            raise Viol(f'{prop}/infeasible-but-admissible', 'initial graph infeasible but R-sem admits architectures')
        # probes
        stats['probe:cycle_in_spec'] = 1 if _has_cycle(spec) else 0
        stats['probe:shared_option'] = 1 if _has_shared_option(spec) else 0
        stats['probe:auto_taken_choice'] = 1 if any(len(c[2]) == 1 for c in spec['sel']) else 0
        stats['probe:incompat_prunes_option'] = 1 if _incompat_prunes(spec_obj) else 0
        stats['probe:rsem_empty'] = 1 if not archs else 0
        return obs, stats
    finally:
        hashorder.uninstall()


def _has_cycle(spec):
    import networkx as nx
    g = nx.DiGraph()
    g.add_edges_from(map(tuple, spec['derive']))
    for cid, origin, opts in spec['sel']:
        for o in opts:
            g.add_edge(origin, o)
    try:
        nx.find_cycle(g)
        return True
    except nx.NetworkXNoCycle:
        return False


def _has_interlocking_cycles(spec):
    """A strongly connected component (derivation + origin->option edges) with more than one independent cycle."""
    import networkx as nx
    g = nx.DiGraph()
    g.add_edges_from(map(tuple, spec['derive']))
    for cid, origin, opts in spec['sel']:
        for o in opts:
            g.add_edge(origin, o)
    for comp in nx.strongly_connected_components(g):
        if len(comp) > 1:
            sub = g.subgraph(comp)
            if sub.number_of_edges() - len(comp) + 1 >= 2:
                return True
    return False


def _option_reachable_from_sibling(spec):
    """Some choice has two options o1 != o2 with o2 reachable from o1 (over derivation edges and all options)."""
    import networkx as nx
    g = nx.DiGraph()
    g.add_nodes_from(spec['nodes'])
    g.add_edges_from(map(tuple, spec['derive']))
    for cid, origin, opts in spec['sel']:
        for o in opts:
            g.add_edge(origin, o)
    for cid, origin, opts in spec['sel']:
        for o1 in opts:
            if o1 not in g:
                continue
            reach = nx.descendants(g, o1)
            if any(o2 in reach for o2 in opts if o2 != o1):
                return True
    return False


def _has_shared_option(spec):
    seen = collections.Counter(o for c in spec['sel'] for o in c[2])
    return any(v > 1 for v in seen.values())


def _incompat_prunes(spec_obj):
    if not spec_obj.incompat:
        return False
    free = Spec({**spec_obj.d, 'incompat': []})
    try:
        return len(free.enumerate(limit=3000)) > len(spec_obj.enumerate(limit=3000))
    except OverflowError:
        return False


def _canon_obs(obs):
    def c(o):
        if o is None:
            return None
        if not o['feasible']:
            return (False,)
        return (o['feasible'], tuple(sorted(o['nodes'])), tuple(map(tuple, o.get('edges', []))))
    return ([c(o) for o in obs['random']], [c(o) for o in obs['directed']])


def execute(prop, trace):
    log = []
    res = {'status': 'ok'}
    stats = collections.Counter()
    try:
        obs1, st1 = run_once(prop, trace, trace['ids_seeds'][0], log)
        stats.update(st1)
        # same scenario under a second identity stream (every set of nodes iterates differently): same labelled result
        log2 = []
        obs2, st2 = run_once(prop, trace, trace['ids_seeds'][1], log2)
        stats['id_streams'] = 2
        if _canon_obs(obs1) != _canon_obs(obs2) or log != log2:
            d = next((i for i, (a, b) in enumerate(zip(log, log2)) if a != b), None)
            raise Viol(f'{prop}/iteration-order-dependent',
                       f'identity streams {trace["ids_seeds"]} give different results; first differing event: '
                       f'{log[d] if d is not None and d < len(log) else None} vs '
                       f'{log2[d] if d is not None and d < len(log2) else None}')
    except Viol as v:
        res = {'status': 'violation', 'clause': v.clause, 'detail': v.detail}
    except Exception as e:  # a crash of the library on a generated graph
        import traceback
        tb = traceback.extract_tb(e.__traceback__)
        inner = next((f for f in reversed(tb) if '/adsg_core/' in f.filename), None)
        where = f'{inner.filename.split("/adsg_core/")[-1]}:{inner.name}' if inner else 'harness'
        if inner is None:
            raise
        res = {'status': 'violation', 'clause': f'{prop}/crash/{type(e).__name__}@{where}',
               'detail': f'{type(e).__name__}: {e}'[:500]}
    h = hashlib.sha256()
    for e in log:
        h.update(repr(e).encode())
    h.update(repr(res.get('clause')).encode())
    res['digest'] = h.hexdigest()
    res['stats'] = dict(stats)
    res['trace'] = trace
    n_sel = len(trace['spec']['sel'])
    res['nontrivial_key'] = None
    if n_sel >= 1 and stats.get('rsem_architectures', 0) >= 2:
        res['nontrivial_key'] = hashlib.sha256(repr((trace['spec'], [w['order_seed'] for w in trace['walks']],
                                                     trace['directed'])).encode()).hexdigest()[:20]
    res['interleaving'] = hashlib.sha256(repr([e for e in log if e[0] == 'apply']).encode()).hexdigest()[:16]
    return res


def generate(prop, seed, tier, n_incompat_max):
    s = Streams(seed)
    rng = s('gen')
    spec = gen_dsg.gen_selection_spec(rng, n_incompat_max=n_incompat_max,
                                      p_island=0.03, p_cycle=rng.choice([0.0, 0.15, 0.4, 0.9]),
                                      p_shared=rng.choice([0.0, 0.3, 0.7]))
    motif = rng.random()
    if motif < 0.12:
        spec = gen_dsg.add_two_entry_cycle(rng, spec)
    elif motif < 0.22:
        spec = gen_dsg.add_reconvergent(rng, spec)
    elif motif < 0.30:
        spec = gen_dsg.add_interlocking_cycles(rng, spec)
    if rng.random() < 0.5:
        spec['order_seed'] = rng.getrandbits(16)  # derivation edges and choices added interleaved (else: edges first)
    orng = s('ops')
    n_walks = 3 if tier == 'quick' else 5
    walks = [{'order_seed': orng.getrandbits(32), 'picks': None} for _ in range(n_walks)]
    directed = [{'index': i, 'order_seeds': [orng.getrandbits(32), orng.getrandbits(32)], 'picks': None}
                for i in range(10 if tier == 'quick' else 24)]
    staged = None
    if orng.random() < 0.25:
        # construction history: the same builder object is initialised twice (other start node first / an edge added later)
        staged = ['start', orng.choice(spec['nodes'])] if orng.random() < 0.5 or not spec['derive'] \
            else ['edge', orng.randrange(len(spec['derive']))]
    return {'property': prop, 'engine': ENGINE, 'seed': seed, 'spec': spec, 'walks': walks, 'directed': directed,
            'ids_seeds': [s.int_seed('ids'), s.int_seed('ids2')], 'staged': staged}


# ---------------------------------------------------------------------------------------------------------------------
# shrinking

def shrink_candidates(trace):
    t = trace
    spec = t['spec']
    if t.get('staged'):
        c = copy.deepcopy(t)
        c['staged'] = None
        yield c
    if spec.get('order_seed') is not None:
        c = copy.deepcopy(t)
        del c['spec']['order_seed']
        yield c
    # fewer walks
    if len(t['walks']) + len(t['directed']) > 1:
        for i in range(len(t['walks'])):
            c = copy.deepcopy(t)
            del c['walks'][i]
            yield c
        if t['directed']:
            c = copy.deepcopy(t)
            c['directed'] = []
            yield c
            for i in range(len(t['directed'])):
                c = copy.deepcopy(t)
                c['directed'] = [t['directed'][i]]
                c['walks'] = []
                yield c
        if t['walks']:
            c = copy.deepcopy(t)
            c['walks'] = []
            yield c
    # smaller spec
    for i in range(len(spec['incompat'])):
        c = copy.deepcopy(t)
        del c['spec']['incompat'][i]
        yield c
    for i in range(len(spec['sel'])):
        c = copy.deepcopy(t)
        del c['spec']['sel'][i]
        yield c
        for j in range(len(spec['sel'][i][2])):
            if len(spec['sel'][i][2]) > 1:
                c = copy.deepcopy(t)
                del c['spec']['sel'][i][2][j]
                yield c
    for i in range(len(spec['derive'])):
        c = copy.deepcopy(t)
        del c['spec']['derive'][i]
        yield c
    for name in spec['nodes']:
        if name in spec['start'] and len(spec['start']) == 1:
            continue
        c = copy.deepcopy(t)
        s = c['spec']
        s['nodes'] = [x for x in s['nodes'] if x != name]
        s['start'] = [x for x in s['start'] if x != name]
        s['derive'] = [e for e in s['derive'] if name not in e]
        s['incompat'] = [e for e in s['incompat'] if name not in e]
        s['sel'] = [[cid, o, [x for x in opts if x != name]] for cid, o, opts in s['sel'] if o != name]
        s['sel'] = [x for x in s['sel'] if x[2]]
        yield c
    if len(spec['start']) > 1:
        for i in range(len(spec['start'])):
            c = copy.deepcopy(t)
            del c['spec']['start'][i]
            yield c


def trace_size(trace):
    s = trace['spec']
    return (len(s['nodes']) * 20 + len(s['derive']) * 10 + sum(10 + 5 * len(c[2]) for c in s['sel'])
            + len(s['incompat']) * 10 + len(s['start']) * 5 + len(trace['walks']) * 3 + len(trace['directed']) * 3
            + (7 if trace.get('staged') else 0))


def signature(trace, result):
    spec = trace['spec']
    feats = []
    if _has_cycle(spec):
        feats.append('cycle')
    if _has_interlocking_cycles(spec):
        feats.append('interlocking-cycles')
    if spec['incompat']:
        feats.append('incompat')
    if _option_reachable_from_sibling(spec):
        feats.append('option-reachable-from-sibling')
    if gen_dsg.has_unreachable(spec):
        feats.append('unreachable-island')
    if _has_shared_option(spec):
        feats.append('shared-option')
    if len(spec['start']) > 1:
        feats.append('multi-start')
    if trace.get('staged'):
        feats.append('staged-build:' + trace['staged'][0])
    return {'clause': result['clause'], 'needs': feats}


def matches_known(known_sig, sig):
    """Same clause, the minimised trace has every structural feature the listed finding needs and none it forbids."""
    return (known_sig['clause'] == sig['clause'] and set(known_sig.get('needs', [])) <= set(sig.get('needs', []))
            and not (set(known_sig.get('forbids', [])) & set(sig.get('needs', []))))


def sample(trace):
    return {'spec': trace['spec'], 'walks': len(trace['walks']), 'directed': len(trace['directed'])}


RULE_TEXT = ('{prop}: each run generates a DSG spec from the run seed (3-12 named nodes, 0-4 selection choices with 1-4 '
             'options, shared options, several choices per node, derivation cycles, several start nodes; {inc}), builds it '
             'through the public API under a seeded identity stream, performs random choice schedules (which active choice '
             'next, which offered option) and, for up to 10/24 of R-sem\'s admissible architectures, two directed schedules '
             'with independent choice orders; then repeats everything under a second identity stream. evaluations = runs '
             'completed. A run is non-trivial if the graph has >= 1 selection choice and R-sem admits >= 2 architectures; '
             'distinct = distinct (spec, schedule seeds).')
COMPONENTS = {'real': ['adsg_core.graph (BasicDSG construction, set_start_nodes, initialize_choices, influence matrix, '
                       'get_ordered_next_choice_nodes, get_option_nodes, get_for_apply_selection_choice, feasible, final)'],
              'stub': ['identity of id-less nodes (DSGNode.update_node_id rebound to a seeded stream, same uniqueness)',
                       'the caller (choice scheduler)']}
ASSUMPTIONS = ['R-sem (simkit/ref_sem.py) is the documented semantics: closure over derivation edges and origin->selected '
               'option edges; admissible iff no incompatible pair in the closure.',
               'Graphs are small (<= 12 nodes, <= 4 choices); larger structures are out of reach.',
               'A walk that ends infeasible is only required to be consistent with R-sem (no admissible architecture '
               'extends the explicit decisions); its node set is not checked.']
