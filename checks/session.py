"""Processor sessions (engine E2): operation/fault histories against a GraphProcessor, judged step by step against a
freshly built twin (C05), against the filter law of the unfixed enumeration (C15), and by re-observation of every
instance ever handed out (independence)."""
import re
import copy
import math
import pickle
import random
import hashlib
import collections

import numpy as np

from simkit import gen_dsg, hashorder, simenv
from simkit.ref_sem import Spec
from simkit.rng import Streams

ENGINE = 'E2'
LEVEL = 'exploration'
RUN_TIMEOUT_S = 180.0
REPO = None


def warmup(with_selector=True):
    global REPO
    import os
    import adsg_core
    REPO = os.path.dirname(os.path.dirname(os.path.abspath(adsg_core.__file__)))
    import adsg_core.optimization.graph_processor  # noqa
    import adsg_core.optimization.assign_enc.selector  # noqa
    import adsg_core.optimization.evaluator  # noqa
    simenv.setup(REPO)
    simenv.install_limiter()
    if not with_selector:
        return {'interrupt_type_injected': 'SystemError (probed from the real limiter by C19 / E1)'}
    import adsg_core.optimization.assign_enc.selector as sel
    from simkit import gen_settings
    with simenv.RunEnv(1):  # compile the numba kernels once, in the parent
        st_, _ = gen_settings.build({'src': [{'conns': [1, 2], 'rep': False}],
                                     'tgt': [{'conns': [0, 1], 'rep': False}, {'conns': [0, 1], 'rep': False}],
                                     'excluded': [], 'patterns': None})
        sel.EncoderSelector(st_).get_best_assignment_manager(cache=False)
    simenv.reset()
    return {'interrupt_type_injected': 'SystemError (probed from the real limiter by C19 / E1)'}


class Viol(Exception):
    def __init__(self, clause, detail):
        super().__init__(clause)
        self.clause = clause
        self.detail = detail


# ---------------------------------------------------------------------------------------------------------------------
# observation (identity-free)

def obs_instance(g):
    if g is None:
        return None
    dv = sorted((gen_dsg.label(n), _num(v)) for n, v in g.des_var_values.items())
    mv = sorted((gen_dsg.label(n), _num(v)) for n, v in g.metric_values.items())
    return (tuple(gen_dsg.observe_nodes(g)), tuple(map(tuple, gen_dsg.observe_edges(g))), bool(g.feasible),
            bool(g.final), tuple(dv), tuple(mv))


def _num(v):
    if v is None:
        return None
    if isinstance(v, (bool, np.bool_)):
        return bool(v)
    if isinstance(v, (int, np.integer)):
        return int(v)
    f = float(v)
    if math.isnan(f):
        return 'nan'
    return f


def obs_x(x):
    return tuple(_num(v) for v in x)


def obs_dvs(dvs):
    return tuple((d.name, 'disc' if d.is_discrete else 'cont', d.n_opts if d.is_discrete else tuple(d.bounds),
                  bool(d.conditionally_active)) for d in dvs)


def obs_enum(res):
    if res is None:
        return None
    x, act = res
    rows = sorted((obs_x(x[i]), tuple(bool(b) for b in act[i])) for i in range(x.shape[0]))
    return tuple(rows)


STAT_COLS = ['type', 'n_valid', 'n_declared', 'n_discrete', 'n_dim_cont', 'n_exist', 'imp_ratio', 'encoder']


def obs_stats(df):
    out = []
    for _, row in df.iterrows():
        out.append(tuple((c, _num(row[c]) if not isinstance(row[c], str) else row[c]) for c in STAT_COLS if c in row))
    return tuple(out)


# ---------------------------------------------------------------------------------------------------------------------
# session

class Session:
    def __init__(self, prop, trace, log):
        self.prop = prop
        self.trace = trace
        self.log = log
        self.spec = trace['spec']
        self.stats = collections.Counter()
        self.fixed = {}  # model: index in all_des_vars -> value
        self.instances = []  # (instance, observation at return time, mutated?)
        self.decodes = []  # vectors of earlier decode ops
        self.in_mem_save = False
        self.P = None
        self._twin_cache = {}

    # -- construction
    def build_processor(self, ids_seed, encoder=None):
        from adsg_core.optimization.graph_processor import GraphProcessor, SelChoiceEncoderType
        hashorder.reseed(ids_seed)
        built = gen_dsg.build(self.spec)
        kw = {}
        if encoder == 'fast':
            kw['encoder_type'] = SelChoiceEncoderType.FAST
        elif encoder == 'complete':
            kw['encoder_type'] = SelChoiceEncoderType.COMPLETE
        if self.trace.get('base_values'):
            # the design space graph handed to the processor already stores values itself (a baseline metric value, an
            # initial design-variable value): unusual but legal - instances must still be independent objects
            for k, n in enumerate(sorted(built.dsg.metric_nodes, key=gen_dsg.label)):
                built.dsg.set_metric_value(n, 100.0 + k)
            for n in sorted(built.dsg.des_var_nodes, key=gen_dsg.label):
                built.dsg.set_des_var_value(n, n.bounds[0] if n.bounds is not None else 0)
        p = GraphProcessor(built.dsg, **kw)
        return p, built

    def construct(self):
        self.P, _ = self.build_processor(self.trace['ids_seed'], encoder=self.trace.get('encoder'))
        return self.P.all_des_vars  # triggers the encoding

    def twin(self, fixed=None):
        """A fresh processor from the same spec (fresh node objects, other identities) with the given fixed values."""
        fixed = self.fixed if fixed is None else fixed
        key = tuple(sorted(fixed.items()))
        if key in self._twin_cache:
            # a twin is never reused for observations that could have changed it: only for its immutable tables
            pass
        self.stats['twins_built'] += 1
        t, _ = self.build_processor(self.trace['twin_ids_seed'] + self.stats['twins_built'],
                                    encoder=self.trace.get('encoder'))
        for i in sorted(fixed):
            t.fix_des_var(t.all_des_vars[i], fixed[i])
        return t

    # -- helpers
    def vector(self, vs, dvs, twin):
        kind = vs['kind']
        if kind == 'repeat' and self.decodes:
            x = self.decodes[vs['j'] % len(self.decodes)]
            if len(x) == len(dvs):
                return list(x)
        if kind == 'full':
            # a vector over ALL variables derived from u (the mapping op_fix uses too), of which the currently free
            # positions are presented: under different fixed sets whose values come from the same u it denotes the same
            # full vector
            all_dvs = self.P.all_des_vars
            free = [k for k in range(len(all_dvs)) if k not in self.fixed]
            if len(free) == len(dvs):
                return [self._u_value(all_dvs[k], vs['u'][k % len(vs['u'])]) for k in free]
        if kind == 'row':
            res = twin.get_all_discrete_x(with_fixed=True)
            if res is not None and res[0].shape[0] > 0:
                row = res[0][vs['i'] % res[0].shape[0]]
                return [int(v) if d.is_discrete else float(v) for v, d in zip(row, dvs)]
        u = vs['u']
        x = []
        for k, d in enumerate(dvs):
            f = u[k % len(u)]
            if d.is_discrete:
                x.append(min(d.n_opts - 1, int(f * d.n_opts)))
            else:
                lo, hi = d.bounds
                x.append(lo + f * (hi - lo))
        return x

    def call(self, fn):
        try:
            return ('ok', fn())
        except Exception as e:
            return ('exc', type(e).__name__, str(e)[:200])

    def V(self, clause, detail):
        raise Viol(f'{self.prop}/{clause}', detail)

    # -- operations
    def op_decode(self, op):
        _, vs, create = op
        T = self.twin()
        dvs_p, dvs_t = obs_dvs(self.P.des_vars), obs_dvs(T.des_vars)
        if dvs_p != dvs_t:
            self.V('des-vars-differ', f'processor declares {dvs_p} but a fresh one with the same fixed values {dvs_t}')
        x = self.vector(vs, T.des_vars, T)
        self.decodes.append(list(x))
        rp = self.call(lambda: self.P.get_graph(list(x), create=create))
        rt = self.call(lambda: T.get_graph(list(x), create=True))
        self.log.append(('decode', obs_x(x), create, rp[0], rt[0]))
        self.stats['decodes'] += 1
        if rp[0] != rt[0] or (rp[0] == 'exc' and rp[1] != rt[1]):
            bad = rp if rp[0] == 'exc' else rt
            who = 'processor' if rp[0] == 'exc' else 'fresh'
            msg = re.sub(r'[^A-Za-z ]+', '', bad[2]).split()[:4]
            self.V(f'decode-outcome-differs/{who}-raises-{bad[1]}:{"-".join(msg)}', f'x={x} create={create}: processor {self._short(rp)} vs fresh {self._short(rt)} '
                                             f'(fixed {self.fixed})')
        if rp[0] == 'exc':
            return
        gp, xp, ap = rp[1]
        gt, xt, at = rt[1]
        if obs_x(xp) != obs_x(xt) or tuple(map(bool, ap)) != tuple(map(bool, at)):
            self.V('decode-vector-differs', f'x={x} create={create}: corrected/active {obs_x(xp)}/{list(map(bool, ap))} '
                                            f'vs fresh {obs_x(xt)}/{list(map(bool, at))} (fixed {self.fixed})')
        if create:
            op_, ot = obs_instance(gp), obs_instance(gt)
            if op_ != ot:
                self.V('decode-instance-differs', f'x={x}: instance {_diff(op_, ot)} (fixed {self.fixed})')
            for (g_old, _, _) in self.instances:
                if g_old is gp:
                    self.V('instance-shared', f'decode of x={x} returned the very object handed out by an earlier decode')
            self.instances.append([gp, op_, False])
        elif gp is not None and not self.P_is_fast():
            pass

    def P_is_fast(self):
        return False

    def _short(self, r):
        return r[:3] if r[0] == 'exc' else 'ok'

    def op_enumerate(self, op):
        _, with_fixed = op
        T = self.twin()
        rp = self.call(lambda: obs_enum(self.P.get_all_discrete_x(with_fixed=with_fixed)))
        rt = self.call(lambda: obs_enum(T.get_all_discrete_x(with_fixed=with_fixed)))
        self.log.append(('enumerate', with_fixed, rp[0], None if rp[0] != 'ok' or rp[1] is None else len(rp[1])))
        self.stats['enumerations'] += 1
        if rp != rt:
            self.V('enumeration-differs', f'with_fixed={with_fixed} fixed={self.fixed}: {self._enum_diff(rp, rt)}')

    def _enum_diff(self, rp, rt):
        if rp[0] != 'ok' or rt[0] != 'ok' or rp[1] is None or rt[1] is None:
            return f'{self._short(rp) if rp[0] != "ok" else rp[1] if rp[1] is None else "rows"} vs ' \
                   f'{self._short(rt) if rt[0] != "ok" else rt[1] if rt[1] is None else "rows"}'
        a, b = set(rp[1]), set(rt[1])
        return f'{len(rp[1])} rows vs fresh {len(rt[1])}; only here {sorted(a - b)[:3]}; only fresh {sorted(b - a)[:3]}'

    def op_n_valid(self, op):
        _, with_fixed, include_cont = op
        T = self.twin()
        rp = self.call(lambda: int(self.P.get_n_valid_designs(with_fixed=with_fixed, include_cont=include_cont)))
        rt = self.call(lambda: int(T.get_n_valid_designs(with_fixed=with_fixed, include_cont=include_cont)))
        rp2 = self.call(lambda: int(self.P.get_n_design_space(with_fixed=with_fixed, include_cont=include_cont)))
        rt2 = self.call(lambda: int(T.get_n_design_space(with_fixed=with_fixed, include_cont=include_cont)))
        self.log.append(('n_valid', with_fixed, include_cont, rp, rp2))
        self.stats['count_queries'] += 1
        if rp != rt or rp2 != rt2:
            self.V('count-differs', f'n_valid/n_design_space(with_fixed={with_fixed}, include_cont={include_cont}) = '
                                    f'{rp}/{rp2} vs fresh {rt}/{rt2} (fixed {self.fixed})')

    def op_stats(self, op):
        T = self.twin()
        rp = self.call(lambda: obs_stats(self.P.get_statistics()))
        rt = self.call(lambda: obs_stats(T.get_statistics()))
        self.log.append(('stats', rp[0]))
        self.stats['stat_queries'] += 1
        if rp != rt:
            self.V('statistics-differ', f'{rp} vs fresh {rt} (fixed {self.fixed})')

    @staticmethod
    def _u_value(d, frac):
        if d.is_discrete:
            return min(d.n_opts - 1, int(frac * d.n_opts))
        lo, hi = d.bounds
        return lo + frac * (hi - lo)

    def _fix_target(self, i, frac):
        all_dvs = self.P.all_des_vars
        if not all_dvs:
            return None, None, None
        i = i % len(all_dvs)
        d = all_dvs[i]
        if isinstance(frac, list):  # the u of a 'full' vector: the value that vector has at this position
            frac = frac[i % len(frac)]
        return i, d, self._u_value(d, frac)

    def _is_conn_var(self, d):
        from adsg_core.graph.adsg_nodes import ConnectionChoiceNode
        return isinstance(d.node, ConnectionChoiceNode)

    def op_fix(self, op):
        _, i, frac, bad = op
        i, d, v = self._fix_target(i, frac)
        if d is None:
            return
        if bad == 'high':
            v = (d.n_opts + 1) if d.is_discrete else d.bounds[1] + 1.0
        elif bad == 'low':
            v = -1 if d.is_discrete else d.bounds[0] - 1.0
        should_fail = bool(bad) or self._is_conn_var(d)
        before = dict(self.P.fixed_values)
        r = self.call(lambda: self.P.fix_des_var(d, v))
        self.log.append(('fix', i, _num(v), bad, r[0]))
        self.stats['fix_ops'] += 1
        if should_fail:
            self.stats['probe:fix_rejected'] += 1
            if r[0] == 'ok':
                self.V('invalid-fix-accepted', f'fix_des_var({d.name}, {v}) ({bad or "connection-choice variable"}) was '
                                               f'accepted')
            if dict(self.P.fixed_values) != before:
                self.V('rejected-fix-changed-state', f'fixed values {before} -> {dict(self.P.fixed_values)}')
            return
        if r[0] != 'ok':
            self.V('valid-fix-rejected', f'fix_des_var({d.name}, {v}) raised {r[1:]}')
        self.fixed[i] = v
        self.check_fix_bookkeeping()

    def op_free(self, op):
        i = op[1]
        all_dvs = self.P.all_des_vars
        if not all_dvs:
            return
        if len(op) > 2 and op[2] == 'exact':
            i = i % len(all_dvs)
        elif self.fixed and op[1] % 3 != 2:
            i = sorted(self.fixed)[i % len(self.fixed)]  # mostly free something that is fixed
        else:
            i = i % len(all_dvs)
        d = all_dvs[i]
        r = self.call(lambda: self.P.free_des_var(d))
        self.log.append(('free', i, r[0]))
        self.stats['free_ops'] += 1
        if r[0] != 'ok':
            self.V('free-raises', f'free_des_var({d.name}) raised {r[1:]}')
        self.fixed.pop(i, None)
        self.check_fix_bookkeeping()

    def check_fix_bookkeeping(self):
        P = self.P
        got = {int(k): _num(v) for k, v in P.fixed_values.items()}
        want = {int(k): _num(v) for k, v in self.fixed.items()}
        if got != want:
            self.V('fixed-bookkeeping', f'fixed_values {got} but the operations so far fix {want}')
        names = [d.name for k, d in enumerate(P.all_des_vars) if k not in self.fixed]
        if [d.name for d in P.des_vars] != names:
            self.V('des-vars-after-fix', f'des_vars {[d.name for d in P.des_vars]} but expected {names}')
        for k, d in enumerate(P.all_des_vars):
            if P.is_fixed(d) != (k in self.fixed):
                self.V('fixed-bookkeeping', f'is_fixed({d.name}) = {P.is_fixed(d)}')
            if k in self.fixed and _num(P.fixed_value(d)) != _num(self.fixed[k]):
                self.V('fixed-bookkeeping', f'fixed_value({d.name}) = {P.fixed_value(d)} but fixed to {self.fixed[k]}')

    def op_mutate(self, op):
        _, j, val = op
        live = [e for e in self.instances]
        if not live:
            return
        e = live[j % len(live)]
        g = e[0]
        done = 0
        for n in g.metric_nodes:
            g.set_metric_value(n, 1000.0 + val)
            done += 1
        for n in g.des_var_nodes:
            g.set_des_var_value(n, n.bounds[0] if n.bounds is not None else 0)
            done += 1
        if done:
            e[2] = True
            self.stats['probe:instance_mutated'] += 1
        self.log.append(('mutate', j % len(live), done))

    def op_evaluate(self, op):
        from adsg_core.optimization.evaluator import DSGEvaluator
        _, j = op
        live = [e for e in self.instances]
        if not live:
            return
        e = live[j % len(live)]

        class Ev(DSGEvaluator):
            def _evaluate(self, dsg, metric_nodes):
                return {n: float(len(dsg.graph.nodes)) for n in metric_nodes}

        try:
            ev = Ev(self.P.graph)
            r = self.call(lambda: ev.evaluate(e[0]))
        except Exception as ex:  # graphs whose metrics cannot be classified etc.
            self.log.append(('evaluate', 'skip', type(ex).__name__))
            return
        e[2] = True
        self.stats['evaluations'] += 1
        self.log.append(('evaluate', j % len(live), r[0]))

    def op_pickle(self, op):
        data = pickle.dumps(self.P)
        self.P = pickle.loads(data)
        self.stats['probe:pickle_roundtrip'] += 1
        self.log.append(('pickle', len(data) > 0))

    def op_int_enum(self, op):
        """The optimizer bridge's pattern: get_all_discrete_x under the limiter, killed at a delivery point."""
        _, frac = op
        P = self.P
        # dry run on a twin to learn the number of delivery points of this call in a comparable state
        T = self.twin()
        _, K = simenv.count_points(lambda: T.get_all_discrete_x(with_fixed=True))
        if K < 1:
            return
        k = 1 + int(frac * K) if frac < 1.0 else K + 5
        n0 = len(simenv.State.calls)
        outer_idx = n0

        def plan(idx, site):
            return k if idx == outer_idx and site.endswith('<lambda>') else None
        simenv.State.plan = plan
        try:
            r = self.call(lambda: simenv.vlimiter(1.0, lambda: P.get_all_discrete_x(with_fixed=True)))
        finally:
            simenv.State.plan = None
        killed = r[0] == 'exc' and r[1] == 'TimeoutError'
        self.stats['fault:limiter_kill_in_enumerate'] += 1 if killed else 0
        self.log.append(('int_enum', k, K, r[0] if r[0] == 'ok' else r[1]))
        if r[0] == 'exc' and r[1] not in ('TimeoutError', 'MemoryError'):
            # the enumeration itself failed: compare with the twin's behaviour
            rt = self.call(lambda: T.get_all_discrete_x(with_fixed=True))
            if rt[0] != 'exc' or rt[1] != r[1]:
                self.V('interrupted-enumerate-raises', f'killed at point {k}/{K}: {r[1:]}')

    def final_reobserve(self):
        for g, o, mutated in self.instances:
            if mutated:
                continue
            o2 = obs_instance(g)
            self.stats['reobservations'] += 1
            if o2 != o:
                self.V('instance-changed-later', f'an instance handed out earlier changed although the script never '
                                                 f'touched it: {_diff(o2, o)}')

    def run(self):
        tr = self.trace
        self.cur_op = None
        rc = self.call(lambda: self.construct())
        if rc[0] == 'exc':
            # no processor for this graph: a fresh one must fail the same way (whether failing is justified is C01's
            # business: the design space must then be empty)
            rt = self.call(lambda: self.build_processor(tr['twin_ids_seed'], encoder=tr.get('encoder'))[0].all_des_vars)
            self.log.append(('construction-failed', rc[1]))
            self.stats['probe:construction_failed'] += 1
            self._construction_failed = True
            if rt[0] != 'exc' or rt[1] != rc[1]:
                self.V('construction-differs', f'{rc[1:]} vs fresh {self._short(rt)}')
            return
        self.log.append(('constructed', obs_dvs(self.P.all_des_vars)))
        disp = {'decode': self.op_decode, 'enumerate': self.op_enumerate, 'n_valid': self.op_n_valid,
                'stats': self.op_stats, 'fix': self.op_fix, 'free': self.op_free, 'mutate': self.op_mutate,
                'evaluate': self.op_evaluate, 'pickle': self.op_pickle, 'int_enum': self.op_int_enum}
        for k, op in enumerate(tr['ops']):
            self.stats['ops'] += 1
            self.stats['op:' + op[0]] += 1
            self.cur_op = k
            disp[op[0]](op)
        self.final_reobserve()


def _diff(a, b):
    if a is None or b is None:
        return f'{a} vs {b}'
    names = ['nodes', 'edges', 'feasible', 'final', 'des_var_values', 'metric_values']
    out = []
    for n, x, y in zip(names, a, b):
        if x != y:
            if isinstance(x, tuple) and isinstance(y, tuple):
                out.append(f'{n}: only-here {sorted(set(x) - set(y), key=repr)[:4]} only-other '
                           f'{sorted(set(y) - set(x), key=repr)[:4]}')
            else:
                out.append(f'{n}: {x} vs {y}')
    return '; '.join(out)


# ---------------------------------------------------------------------------------------------------------------------

def execute(prop, trace, session_cls=Session):
    log = []
    res = {'status': 'ok'}
    sess = None
    hashorder.install(trace['ids_seed'])
    simenv.reset()
    try:
        with simenv.RunEnv(trace['env_seed']):
            sess = session_cls(prop, trace, log)
            try:
                sess.run()
            except Viol as v:
                res = {'status': 'violation', 'clause': v.clause, 'detail': f'op {getattr(sess, "cur_op", None)}: ' + v.detail,
                       'at_op': getattr(sess, 'cur_op', None)}
            except Exception as e:
                import traceback
                tb = traceback.extract_tb(e.__traceback__)
                inner = next((f for f in reversed(tb) if '/adsg_core/' in f.filename), None)
                if inner is None:
                    raise
                where = f'{inner.filename.split("/adsg_core/")[-1]}:{inner.name}'
                res = {'status': 'violation', 'clause': f'{prop}/crash/{type(e).__name__}@{where}',
                       'detail': f'op {getattr(sess, "cur_op", None)}: {type(e).__name__}: {e}'[:600],
                       'at_op': getattr(sess, 'cur_op', None)}
    finally:
        hashorder.uninstall()
        simenv.reset()
    h = hashlib.sha256()
    for e in log:
        h.update(repr(e).encode())
    h.update(repr(res.get('clause')).encode())
    res['digest'] = h.hexdigest()
    st = dict(sess.stats) if sess is not None else {}
    res['stats'] = st
    res['trace'] = trace
    state_ops = sum(st.get('op:' + k, 0) for k in ('fix', 'free', 'mutate', 'pickle', 'int_enum', 'evaluate'))
    res['nontrivial_key'] = None
    if state_ops >= 1 and st.get('decodes', 0) + st.get('enumerations', 0) >= 1:
        res['nontrivial_key'] = hashlib.sha256(repr((trace['spec'], trace['ops'])).encode()).hexdigest()[:20]
    res['interleaving'] = hashlib.sha256(repr([o[0] for o in trace['ops']]).encode()).hexdigest()[:16]
    return res


def gen_vec(rng):
    k = rng.random()
    if k < 0.5:
        return {'kind': 'rand', 'u': [round(rng.random(), 4) for _ in range(8)]}
    if k < 0.8:
        return {'kind': 'row', 'i': rng.randrange(10000), 'u': [round(rng.random(), 4) for _ in range(8)]}
    return {'kind': 'repeat', 'j': rng.randrange(100), 'u': [round(rng.random(), 4) for _ in range(8)]}


def gen_ops(rng, n, weights):
    kinds = list(weights)
    w = [weights[k] for k in kinds]
    ops = []
    for _ in range(n):
        k = rng.choices(kinds, w)[0]
        if k == 'decode':
            ops.append(['decode', gen_vec(rng), rng.random() < 0.7])
        elif k == 'enumerate':
            ops.append(['enumerate', rng.random() < 0.7])
        elif k == 'n_valid':
            ops.append(['n_valid', rng.random() < 0.6, rng.random() < 0.3])
        elif k == 'stats':
            ops.append(['stats'])
        elif k == 'fix':
            ops.append(['fix', rng.randrange(64), round(rng.random(), 4), rng.choice([None] * 8 + ['high', 'low'])])
        elif k == 'free':
            ops.append(['free', rng.randrange(64)])
        elif k == 'mutate':
            ops.append(['mutate', rng.randrange(64), rng.randrange(100)])
        elif k == 'evaluate':
            ops.append(['evaluate', rng.randrange(64)])
        elif k == 'pickle':
            ops.append(['pickle'])
        elif k == 'int_enum':
            ops.append(['int_enum', round(rng.random(), 4)])
    return ops


def generate(prop, seed, tier, weights, n_ops=(4, 14), n_incompat_max=2, with_dv=True, p_cycles=(0.0, 0.0, 0.0, 0.15),
             conn_share=0.0):
    s = Streams(seed)
    rng = s('gen')
    # clean shapes only: acyclic choice structures, every option offered by one choice and derived by nothing else,
    # incompatibilities between options without forced conflicts. On other shapes the complete encoder's analysis and
    # the graph walk disagree in many rare ways (DESIGN.md 9.3); those are the subject of C02 / C06, not of the
    # history- and twin-based properties checked here.
    spec = gen_dsg.gen_tree_spec(rng, n_incompat_max=rng.choice([0, 0, n_incompat_max + 1]))
    spec = gen_dsg.clean_incompat(spec)
    if with_dv:
        spec = gen_dsg.add_dv_metrics(rng, spec)
    if conn_share and rng.random() < conn_share:
        for k in range(rng.choice([1, 2, 2])):
            spec = gen_dsg.add_conn_choice(rng, spec, cid=f'X{k}', p_group=0.0, max_side=2)
    orng = s('ops')
    ops = gen_ops(orng, orng.randint(*n_ops), weights)
    if 'fix' in weights and orng.random() < 0.3:
        # directed motif: the same full vector is decoded (both create flags) with nothing fixed and under two different
        # single fixes whose values are that vector's own entries - results must not depend on what was fixed (and
        # decoded) before
        u = [round(orng.random(), 4) for _ in range(8)]
        a, b = orng.randrange(64), orng.randrange(64)
        v = {'kind': 'full', 'u': u}
        motif = [['decode', v, False], ['decode', v, True],
                 ['fix', a, u, None], ['decode', v, False], ['decode', v, True], ['free', a, 'exact'],
                 ['fix', b, u, None], ['decode', v, False], ['decode', v, True], ['free', b, 'exact']]
        at = orng.randint(0, len(ops))
        ops[at:at] = motif
    if 'fix' in weights and 'pickle' in weights and orng.random() < 0.12:
        # directed motif: cached queries, a pickle round trip (restart from durable state), then a fix on the restored
        # processor and the same queries again - whatever was cached before the round trip must not survive the fix
        u = [round(orng.random(), 4) for _ in range(8)]
        motif = [['n_valid', True, False], ['enumerate', True], ['stats'], ['pickle'], ['fix', orng.randrange(64), u, None],
                 ['enumerate', True], ['n_valid', True, False], ['stats']]
        at = orng.randint(0, len(ops))
        ops[at:at] = motif
    return {'property': prop, 'engine': ENGINE, 'seed': seed, 'spec': spec, 'ops': ops,
            'ids_seed': s.int_seed('ids'), 'twin_ids_seed': s.int_seed('ids-twin'), 'env_seed': s.int_seed('env'),
            'encoder': None}


# ---------------------------------------------------------------------------------------------------------------------
# shrinking

def shrink_candidates(trace):
    t = trace
    ops = t['ops']
    if t.get('base_values'):
        c = copy.deepcopy(t)
        del c['base_values']
        yield c
    n = len(ops)
    # drop chunks of operations, then single ones
    size = n // 2
    while size >= 1:
        for start in range(0, n, size):
            c = copy.deepcopy(t)
            del c['ops'][start:start + size]
            yield c
        size //= 2
    # simplify operations
    for i, op in enumerate(ops):
        if op[0] == 'decode':
            if op[1]['kind'] != 'rand':
                c = copy.deepcopy(t)
                c['ops'][i][1] = {'kind': 'rand', 'u': op[1].get('u', [0.0])}
                yield c
            if any(v != 0.0 for v in op[1].get('u', [])):
                c = copy.deepcopy(t)
                c['ops'][i][1] = dict(op[1], u=[0.0])
                yield c
            if not op[2]:
                c = copy.deepcopy(t)
                c['ops'][i][2] = True
                yield c
        if op[0] == 'fix' and not isinstance(op[2], list) and (op[1] > 8 or op[2] != 0.0):
            c = copy.deepcopy(t)
            c['ops'][i][1] = op[1] % 8
            yield c
            c = copy.deepcopy(t)
            c['ops'][i][2] = 0.0
            yield c
    yield from shrink_spec(t)


def shrink_spec(t):
    spec = t['spec']
    for key in ('constraints', 'incompat', 'dv', 'metrics', 'sel', 'derive'):
        for i in range(len(spec.get(key, []))):
            c = copy.deepcopy(t)
            del c['spec'][key][i]
            yield c
    for i in range(len(spec['sel'])):
        for j in range(len(spec['sel'][i][2])):
            if len(spec['sel'][i][2]) > 1:
                c = copy.deepcopy(t)
                del c['spec']['sel'][i][2][j]
                yield c
    for name in spec['nodes']:
        if name in spec['start'] and len(spec['start']) == 1:
            continue
        c = copy.deepcopy(t)
        s = c['spec']
        s['nodes'] = [x for x in s['nodes'] if x != name]
        s['start'] = [x for x in s['start'] if x != name]
        s['derive'] = [e for e in s['derive'] if name not in e]
        s['incompat'] = [e for e in s['incompat'] if name not in e]
        s['sel'] = [[cid, o, [x for x in opts if x != name]] for cid, o, opts in s['sel'] if o != name]
        s['sel'] = [x for x in s['sel'] if x[2]]
        s['dv'] = [d for d in s.get('dv', []) if d['host'] != name]
        s['metrics'] = [d for d in s.get('metrics', []) if d['host'] != name]
        if 'conn' in s:
            continue
        yield c


def trace_size(trace):
    s = trace['spec']
    return (len(trace['ops']) * 40 + len(s['nodes']) * 20 + len(s['derive']) * 10
            + sum(10 + 5 * len(c[2]) for c in s['sel']) + len(s['incompat']) * 10 + len(s.get('dv', [])) * 10
            + len(s.get('metrics', [])) * 10 + len(s.get('conn', [])) * 60
            + sum(1 for o in trace['ops'] if o[0] == 'decode' and (o[1]['kind'] != 'rand' or any(o[1].get('u', [])))))


def spec_features(spec):
    from checks.graphwalk import _has_cycle, _has_shared_option
    f = []
    if _has_cycle(spec):
        f.append('cycle')
    if spec.get('incompat'):
        f.append('incompat')
    if _has_shared_option(spec):
        f.append('shared-option')
    if spec.get('dv'):
        f.append('dv')
    if spec.get('conn'):
        f.append('conn')
    if spec.get('constraints'):
        f.append('choice-constraint')
        # a linked group that is only partially active in some admissible architecture (a member is active while
        # another member is not)
        from simkit.ref_sem import Spec
        try:
            archs = Spec(spec).enumerate(limit=5000)
        except OverflowError:
            archs = []
        for kind, cids in spec['constraints']:
            if kind == 'linked' and any(0 < sum(1 for c in cids if c in a) < len(cids) for _, a in archs):
                f.append('linked-group-partially-active')
                break
    incs = {tuple(sorted(p)) for p in spec.get('incompat', [])}
    if incs:
        allopts = {o for c in spec['sel'] for o in c[2]}
        if any(x not in c[2] and c[2] and all(tuple(sorted((x, o))) in incs for o in c[2])
               for x in allopts for c in spec['sel']):
            f.append('blocked-option')
    if len(spec['start']) > 1:
        f.append('multi-start')
    return f


def signature(trace, result):
    kinds = []
    for o in trace['ops']:
        if o[0] not in kinds:
            kinds.append(o[0])
    return {'clause': result['clause'], 'op_kinds': sorted(kinds), 'needs': spec_features(trace['spec']),
            'encoder': trace.get('encoder')}


def matches_known(known_sig, sig):
    return (known_sig['clause'] == sig['clause'] and set(known_sig.get('op_kinds', [])) <= set(sig.get('op_kinds', []))
            and set(known_sig.get('needs', [])) <= set(sig.get('needs', []))
            and known_sig.get('encoder') in (None, sig.get('encoder')))


def sample(trace):
    return {'spec': trace['spec'], 'ops': trace['ops'][:12]}
