"""Generic check driver: batch of seeded runs -> oracle verdicts -> shrink -> known-finding match -> replay files,
evidence, exit code.

Exit codes: 0 = property held on everything explored (KNOWN-FINDING lines allowed); 1 = at least one
`VIOLATION property=<id> replay=<path>`; 3 = harness error (`HARNESS-ERROR ...`), never 0."""
import os
import sys
import json
import time
import hashlib
import collections

from simkit import runner
from simkit.rng import run_seed

ROOT = os.path.dirname(os.path.dirname(os.path.abspath(__file__)))
KNOWN_FILE = os.path.join(ROOT, 'known_findings.jsonl')
NSLOTS = int(os.environ.get('VERIF_SLOTS', '16'))


def _job_fn(arg):
    mod, job, tier = arg
    trace = getattr(mod, job['gen'])(job['seed'], tier, job.get('index', 0))
    if job.get('params'):
        trace.setdefault('params', {}).update(job['params'])
    res = mod.execute(trace)
    res['job'] = job
    if res.get('status') == 'violation' and 'trace' not in res:
        res['trace'] = trace
    if job.get('keep_trace'):
        res.setdefault('trace', trace)
    return res


def _exec_fn(arg):
    mod, trace = arg
    return mod.execute(trace)


def load_known(prop):
    out = []
    if os.path.exists(KNOWN_FILE):
        for line in open(KNOWN_FILE):
            line = line.strip()
            if not line or line.startswith('#') or line.startswith('fixed:'):
                continue
            e = json.loads(line)
            if e.get('property') == prop and e.get('status') == 'known':
                out.append(e)
    return out


def find_known(mod, known_list, sig):
    """The listed known finding (if any) that this violation signature is an instance of. Default: equal signatures;
    a check module may define matches_known(known_sig, sig) (e.g. 'needs' of the listed witness is a subset)."""
    f = getattr(mod, 'matches_known', None)
    for e in known_list:
        if (f(e['signature'], sig) if f is not None else sig_key(e['signature']) == sig_key(sig)):
            return e
    return None


def sig_key(sig):
    return json.dumps(sig, sort_keys=True)


def same_class(mod, res0, res):
    if res.get('status') != 'violation':
        return False
    f = getattr(mod, 'same_class', None)
    if f is not None:
        return f(res0, res)
    return res.get('clause') == res0.get('clause')


def shrink(mod, trace, res0, max_exec=600, wall=180.0, log=None):
    """Greedy delta debugging: accept a smaller trace only if it yields the same violation class (fresh fork each)."""
    t0 = time.monotonic()
    best, best_res = trace, res0
    n_exec = 0
    improved = True
    size = getattr(mod, 'trace_size', lambda t: len(json.dumps(t)))
    while improved and n_exec < max_exec and time.monotonic() - t0 < wall:
        improved = False
        cur_size = size(best)
        batch = []
        gen = mod.shrink_candidates(best)
        exhausted = False
        while not improved and not exhausted and n_exec < max_exec and time.monotonic() - t0 < wall:
            batch = []
            for cand in gen:
                if size(cand) < cur_size:
                    batch.append(cand)
                    if len(batch) >= NSLOTS:
                        break
            else:
                exhausted = True
            if not batch:
                break
            results = runner.run_many(_exec_fn, [(mod, c) for c in batch], nslots=NSLOTS,
                                      timeout=getattr(mod, 'RUN_TIMEOUT_S', 120.0),
                                      slot_init=getattr(mod, 'slot_init', None))
            n_exec += len(batch)
            for cand, r in zip(batch, results):
                if r is not None and same_class(mod, res0, r):
                    best, best_res = r.get('trace', cand), r
                    improved = True
                    break
    if log:
        log(f'shrink: {n_exec} executions, size {size(trace)} -> {size(best)}')
    return best, best_res


def write_replay(mod, trace, res, tag=None):
    os.makedirs(os.path.join(ROOT, 'replays'), exist_ok=True)
    body = {'property': mod.PROPERTY, 'engine': mod.ENGINE, 'seed': trace.get('seed'), 'class': res['clause'],
            'detail': res.get('detail'), 'trace': trace, 'expect': {'clause': res['clause'], 'digest': res.get('digest')}}
    h = hashlib.sha256(json.dumps(body['trace'], sort_keys=True).encode()).hexdigest()[:12]
    path = os.path.join(ROOT, 'replays', f'{mod.PROPERTY}-{tag or h}.json')
    with open(path, 'w') as f:
        json.dump(body, f, indent=1)
    return path


def replay_file(mod, path, quiet=False):
    body = json.load(open(path))
    res = runner.fork_call(_exec_fn, (mod, body['trace']), getattr(mod, 'RUN_TIMEOUT_S', 120.0))
    ok_class = res.get('status') == 'violation' and res.get('clause') == body['expect']['clause']
    ok_digest = res.get('digest') == body['expect'].get('digest')
    if not quiet:
        print(f"replay {path}: status={res.get('status')} clause={res.get('clause')} "
              f"expected={body['expect']['clause']} digest_match={ok_digest}")
        if res.get('detail'):
            print('  ' + str(res['detail'])[:2000])
    return res, ok_class, ok_digest


def main_check(mod, tier, batch_seed, out=sys.stdout):
    t_start = time.monotonic()
    err = sys.stderr

    def say(s):
        print(s, file=out)
        out.flush()

    info = mod.warmup() or {}
    known = load_known(mod.PROPERTY)
    known_live = []
    harness_errors = []
    # 1. known findings: replay the committed witnesses
    for e in known:
        wpath = os.path.join(ROOT, e['witness'])
        try:
            res, ok_class, ok_digest = replay_file(mod, wpath, quiet=True)
        except Exception as ex:  # unreadable witness
            print(f'stale known finding (witness unreadable: {ex}): {e["what"]}', file=err)
            continue
        if res.get('status') == 'harness_error':
            harness_errors.append('known-finding witness: ' + str(res.get('detail')))
            continue
        if ok_class and find_known(mod, [e], mod.signature(json.load(open(wpath))['trace'], res)) is not None:
            say(f'KNOWN-FINDING: property={mod.PROPERTY} {e["what"]}')
            known_live.append(e)
        else:
            print(f'stale known finding (no longer reproduces, suppresses nothing): {e["what"]}', file=err)

    # 2. the batch
    jobs = mod.jobs(tier, batch_seed)
    for j in jobs[:3]:
        j['keep_trace'] = True
    wall_budget = getattr(mod, 'WALL_BUDGET', {}).get(tier)
    results = runner.run_many(_job_fn, [(mod, j, tier) for j in jobs], nslots=NSLOTS,
                              timeout=getattr(mod, 'RUN_TIMEOUT_S', 120.0), wall_budget=wall_budget,
                              slot_init=getattr(mod, 'slot_init', None))
    done = [r for r in results if r is not None]
    for r in done:
        if r.get('status') == 'harness_error':
            harness_errors.append(f"seed {r.get('job', {}).get('seed')}: {r.get('detail')}")

    # 3. determinism spot check: first K completed jobs again, other slot count, digests must agree
    k = getattr(mod, 'DETERMINISM_RERUNS', {'quick': 8, 'thorough': 48}).get(tier, 8)
    idx = [i for i, r in enumerate(results) if r is not None and r.get('status') in ('ok', 'violation')][:k]
    if idx:
        again = runner.run_many(_job_fn, [(mod, jobs[i], tier) for i in idx], nslots=max(1, NSLOTS // 3),
                                timeout=getattr(mod, 'RUN_TIMEOUT_S', 120.0), slot_init=getattr(mod, 'slot_init', None))
        for i, r2 in zip(idx, again):
            if r2 is None or r2.get('status') == 'harness_error':
                harness_errors.append(f'determinism rerun failed for seed {jobs[i]["seed"]}: {r2 and r2.get("detail")}')
            elif r2.get('digest') != results[i].get('digest') or r2.get('status') != results[i].get('status'):
                harness_errors.append(f'HARNESS-NONDETERMINISM seed {jobs[i]["seed"]} gen {jobs[i]["gen"]}: '
                                      f'{results[i].get("digest")} vs {r2.get("digest")}')

    # 4. violations: group, shrink a representative, compare with known findings
    viols = [r for r in done if r.get('status') == 'violation']
    groups = collections.OrderedDict()
    size = getattr(mod, 'trace_size', lambda t: len(json.dumps(t)))
    for r in viols:
        groups.setdefault(r.get('clause'), []).append(r)
    reported = []
    seen_sigs = set()
    known_hits = collections.Counter()
    reps_per_clause = getattr(mod, 'REPS_PER_CLAUSE', 3)
    max_shrinks = getattr(mod, 'MAX_SHRINKS', 8)
    shrink_wall = getattr(mod, 'SHRINK_WALL', {'quick': 90.0, 'thorough': 300.0}).get(tier, 90.0)
    n_shrunk = 0
    for clause, rs in groups.items():
        # representatives: smallest trace of each distinct unshrunk signature, at most reps_per_clause of them
        by_pre = collections.OrderedDict()
        presig = {}
        for r in sorted(rs, key=lambda r: size(r['trace'])):
            sg = mod.signature(r['trace'], r)
            presig[id(r)] = sig_key(sg)
            by_pre.setdefault(sig_key(sg), (r, sg))
        # A listed known finding is only recognised on the *minimised* trace (an unshrunk trace may merely contain the
        # known finding's structural precondition by accident). Candidates whose unshrunk signature does not match any
        # known finding are examined first.
        unknown_pre = []
        maybe_known = []
        for k, (r, sg) in by_pre.items():
            (maybe_known if find_known(mod, known_live, sg) is not None else unknown_pre).append((k, r))
        n_unknown = len(unknown_pre)
        unknown_pre = unknown_pre + maybe_known
        deferred_known = {k for k, _ in maybe_known[max(0, reps_per_clause - n_unknown):]}
        for k in deferred_known:  # beyond the shrink budget: fall back to the unshrunk signature
            e = find_known(mod, known_live, by_pre[k][1])
            known_hits[e['what']] += sum(1 for x in rs if presig[id(x)] == k)
        unknown_pre = [(k, r) for k, r in unknown_pre if k not in deferred_known]
        for k, rep in unknown_pre[:reps_per_clause]:
            if n_shrunk < max_shrinks:
                n_shrunk += 1
                tr, res = shrink(mod, rep['trace'], rep, wall=shrink_wall, log=lambda s: print(s, file=err))
            else:
                tr, res = rep['trace'], rep
            ssig = mod.signature(tr, res)
            skey = sig_key(ssig)
            n_same = sum(1 for x in rs if presig[id(x)] == k)
            e = find_known(mod, known_live, ssig)
            if e is not None:
                known_hits[e['what']] += n_same
                continue
            if skey in seen_sigs:
                continue
            seen_sigs.add(skey)
            path = write_replay(mod, tr, res)
            res2, ok_class, ok_digest = replay_file(mod, path, quiet=True)  # confirm in a fresh process first
            if not ok_class:
                harness_errors.append(f'violation {res["clause"]} did not reproduce from its replay file {path}')
                continue
            reported.append((path, res, len(rs)))
        if len(unknown_pre) > reps_per_clause:
            print(f'{clause}: {len(unknown_pre) - reps_per_clause} further unshrunk signatures not examined', file=err)

    # 5. evidence
    wall = time.monotonic() - t_start
    ev = build_evidence(mod, tier, batch_seed, jobs, done, reported, known_hits, info, wall, harness_errors)
    # evidence/ only ever describes runs against /repo itself; runs against another tree (ADSG_REPO=<scratch worktree>,
    # used by bin/vseeded) write to the git-ignored scratch/ directory
    ev_dir = 'evidence' if os.environ.get('ADSG_REPO', '/repo') == '/repo' else os.path.join('scratch', 'evidence')
    os.makedirs(os.path.join(ROOT, ev_dir), exist_ok=True)
    with open(os.path.join(ROOT, ev_dir, f'{mod.PROPERTY}.json'), 'w') as f:
        json.dump(ev, f, indent=1, default=str)

    for path, res, n in reported:
        say(f'VIOLATION property={mod.PROPERTY} replay={path}')
        say(f'  class={res["clause"]} runs={n} detail={str(res.get("detail"))[:600]}')
    if harness_errors:
        for h in harness_errors[:10]:
            say(f'HARNESS-ERROR property={mod.PROPERTY} {h[:300]} ... {h[-1200:]}')
        return 3
    if reported:
        return 1
    say(f'OK property={mod.PROPERTY} tier={tier} seed={batch_seed} runs={ev["coverage"]["evaluations"]} '
        f'distinct_nontrivial={ev["coverage"]["distinct_nontrivial"]} known_hits={sum(known_hits.values())} '
        f'wall={wall:.1f}s')
    return 0


def build_evidence(mod, tier, batch_seed, jobs, done, reported, known_hits, info, wall, harness_errors):
    good = [r for r in done if r.get('status') in ('ok', 'violation')]
    stats = collections.Counter()
    keys = set()
    inter = set()
    sim_time = 0.0
    evaluations = 0
    for r in good:
        evaluations += r.get('sub_runs', 1)
        for k, v in (r.get('stats') or {}).items():
            if isinstance(v, (int, float)):
                stats[k] += v
        nk = r.get('nontrivial_key')
        if isinstance(nk, list):
            keys.update(nk)
        elif nk:
            keys.add(nk)
        il = r.get('interleaving')
        if isinstance(il, list):
            inter.update(il)
        elif il:
            inter.add(il)
        sim_time += r.get('sim_time', 0.0) or 0.0
    faults = {k.split(':', 1)[1]: v for k, v in stats.items() if k.startswith('fault:')}
    probes = {k.split(':', 1)[1]: v for k, v in stats.items() if k.startswith('probe:')}
    other = {k: v for k, v in stats.items() if not k.startswith(('fault:', 'probe:'))}
    samples = []
    for r in good:
        t = r.get('trace')
        if t is not None and len(samples) < 4:
            samples.append(mod.sample(t))
    if not samples:
        for j in jobs[:3]:
            samples.append({'gen': j['gen'], 'seed': j['seed']})
    cov = {
        'evaluations': evaluations,
        'distinct_nontrivial': len(keys),
        'rule': mod.RULE,
        'samples': samples,
        'runs_per_hour': int(evaluations / wall * 3600) if wall > 0 else 0,
        'seeds': {'batch_seed': batch_seed, 'jobs': len(jobs), 'completed': len(good),
                  'first_run_seeds': [j['seed'] for j in jobs[:5]]},
        'sim_time_s': sim_time,
        'faults_fired': faults,
        'probes': probes,
        'counters': other,
        'distinct_interleavings': len(inter),
        'components': mod.COMPONENTS,
        'known_hits': dict(known_hits),
        'harness_errors': len(harness_errors),
    }
    cov.update(info)
    extra = getattr(mod, 'extra_coverage', None)
    if extra is not None:
        cov.update(extra(good))
    return {'property_id': mod.PROPERTY, 'tier': tier, 'seed': batch_seed, 'level': mod.LEVEL, 'coverage': cov,
            'assumptions': mod.ASSUMPTIONS, 'wall_s': round(wall, 2), 'violations': len(reported)}


def std_jobs(plan, batch_seed, interleave_from=None):
    """plan: list of (generator name, count[, params]) -> job list with run seeds derived from the batch seed. Plan items
    from position `interleave_from` on are spread evenly over the rest of the list (each in proportion to its count), so
    that a wall budget that ends the batch early cuts all of them alike instead of starving the last ones."""
    order = []
    for pos, item in enumerate(plan):
        gen, count = item[0], item[1]
        params = item[2] if len(item) > 2 else None
        for k in range(count):
            key = (0, pos, k) if interleave_from is None or pos < interleave_from else (1, (k + 0.5) / count, pos)
            order.append((key, gen, params))
    order.sort(key=lambda t: t[0])
    jobs = []
    for i, (_, gen, params) in enumerate(order):
        j = {'gen': gen, 'seed': run_seed(batch_seed, i), 'index': i}
        if params:
            j['params'] = params
        jobs.append(j)
    return jobs
