"""Workload generator: textual graph specs (plain data) and a builder that replays a spec through the public helper API
(BasicDSG.add_edges / add_selection_choice / add_connection_choice / add_incompatibility_constraint / set_start_nodes).

Spec (all names are strings):
  nodes:    ['N0', ...]                         named nodes
  derive:   [['N0','N1'], ...]                  derivation edges
  sel:      [['C0', origin, [opt, ...]], ...]   selection choices (ordered options)
  incompat: [['N1','N4'], ...]
  start:    ['N0']
  conn:     [{'id','src':[connector...],'tgt':[...],'exclude':[[s,t]...]}]   connector = {'name','host','deg','rep'} or
            {'group': name, 'members': [connector...]}
  dv:       [{'name','host','bounds'|'options'}]
  metrics:  [{'name','host','dir','ref'}]
"""
import copy


def gen_selection_spec(rng, n_incompat_max=0, size=None, p_cycle=0.15, p_shared=0.3, p_island=0.0, p_multi_start=0.15,
                       max_choices=4, acyclic=False, tree_options=False):
    n = size or rng.randint(3, 12)
    nodes = [f'N{i}' for i in range(n)]
    derive = set()
    # forward edges: every node but the start gets some chance of a deriving edge from an earlier node
    for j in range(1, n):
        if rng.random() < 0.55:
            i = rng.randrange(0, j)
            derive.add((nodes[i], nodes[j]))
        if rng.random() < 0.15:
            i = rng.randrange(0, j)
            derive.add((nodes[i], nodes[j]))
    if not acyclic and rng.random() < p_cycle and n >= 3:
        for _ in range(rng.choice([1, 1, 2, 3])):
            j = rng.randrange(1, n)
            i = rng.randrange(j, n)
            if i != j:
                derive.add((nodes[i], nodes[j]))  # backward edge: a derivation cycle
                if rng.random() < 0.5:
                    derive.add((nodes[j], nodes[i]))  # ... of length two
                if rng.random() < 0.5 and n > 3:  # both cycle nodes also derive a common node
                    k = rng.randrange(1, n)
                    if k not in (i, j):
                        derive.add((nodes[i], nodes[k]))
                        derive.add((nodes[j], nodes[k]))
    start = [nodes[0]]
    if rng.random() < p_multi_start and n > 3:
        start.append(nodes[rng.randrange(1, n)])
    sel = []
    n_choices = rng.randint(0, max_choices) if rng.random() < 0.9 else 0
    used_opts = []
    def _universe():
        seen, todo = set(), list(start)
        while todo:
            x = todo.pop()
            if x in seen:
                continue
            seen.add(x)
            todo.extend(t for (s_, t) in derive if s_ == x)
            for _, o_, opts_ in sel:
                if o_ == x:
                    todo.extend(opts_)
        return sorted(seen, key=lambda v: int(v[1:]))

    for c in range(n_choices):
        reach = _universe()
        origin = rng.choice(reach) if rng.random() < 0.85 else nodes[rng.randrange(0, n)]
        k = rng.choice([1, 2, 2, 2, 3, 3, 4])
        cands = [x for x in nodes if x != origin and x not in start and (origin, x) not in derive
                 and (not acyclic or int(x[1:]) > int(origin[1:]))]
        if tree_options:  # an option node is offered by exactly one choice and derived by nothing else
            targets = {t for (_, t) in derive}
            cands = [x for x in cands if x not in targets and x not in used_opts]
        rng.shuffle(cands)
        opts = []
        for x in cands:
            if len(opts) >= k:
                break
            if x in used_opts and rng.random() > p_shared:
                continue
            opts.append(x)
        if not opts:
            continue
        used_opts.extend(opts)
        sel.append([f'C{c}', origin, opts])
    incompat = []
    if n_incompat_max:
        for _ in range(rng.randint(0 if rng.random() < 0.15 else 1, n_incompat_max)):
            a, b = rng.sample(nodes, 2)
            if [a, b] not in incompat and [b, a] not in incompat:
                incompat.append([a, b])
    dl = sorted(map(list, derive))
    rng.shuffle(dl)  # the order in which edges are added to the graph is part of the input (dict / cache orders)
    spec = {'nodes': nodes, 'derive': dl, 'sel': sel, 'incompat': incompat, 'start': start}
    if rng.random() >= p_island:
        spec = drop_unreachable(spec)
    return spec


def add_two_entry_cycle(rng, spec):
    """Motif: a derivation cycle X <-> Y (optionally with a common successor), something with a nested choice derived at
    one of its nodes, and two options of *different* choices that enter the cycle at different nodes. Generic shape for
    caches keyed by node: the component is reached twice, from different entries."""
    spec = copy.deepcopy(spec)
    base = max(int(n[1:]) for n in spec['nodes']) + 1
    names = [f'N{base + i}' for i in range(9)]
    x, y, l, z, u, v, a, p, q = names
    spec['nodes'] += names
    cyc = [[x, y], [y, x]]
    if rng.random() < 0.7:
        cyc += [[x, l], [y, l]]
    cyc += [[x, z] if rng.random() < 0.5 else [y, z], [a, x], [p, y]]
    rng.shuffle(cyc)
    spec['derive'] += cyc
    k = len(spec['sel'])
    host = spec['start'][0]
    alt1, alt2 = (q, u) if rng.random() < 0.5 else (u, q)
    spec['sel'].append([f'M{k}', host, [a, alt1] if rng.random() < 0.5 else [alt1, a]])
    spec['sel'].append([f'M{k + 1}', host, [p, alt2] if rng.random() < 0.5 else [alt2, p]])
    nested = [f'N{base + 9}', f'N{base + 10}']
    spec['nodes'] += nested
    spec['sel'].append([f'M{k + 2}', z, nested])
    return spec


def add_interlocking_cycles(rng, spec):
    """Motif: a chain of 2-cycles X0 <-> X1 <-> ... <-> Xm (two cycles share each inner node), a choice below one of the
    nodes, and options (of one or two choices) that enter the component at different nodes. Generic shape for loop
    handling in traversals: whichever node is entered, everything below every node of the component is derived."""
    spec = copy.deepcopy(spec)
    base = max(int(n[1:]) for n in spec['nodes']) + 1
    m = rng.choice([2, 2, 3])
    xs = [f'N{base + i}' for i in range(m + 1)]
    extra = [f'N{base + m + 1 + i}' for i in range(4)]
    spec['nodes'] += xs + extra
    edges = []
    for a, b in zip(xs, xs[1:]):
        edges += [[a, b], [b, a]]
    rng.shuffle(edges)
    spec['derive'] += edges
    n = len(spec['sel'])
    host = spec['start'][0]
    entries = rng.sample(xs, rng.randint(2, len(xs)))
    if rng.random() < 0.5:
        opts = entries + [extra[0]]
        rng.shuffle(opts)
        spec['sel'].append([f'L{n}', host, opts])
    else:
        spec['sel'].append([f'L{n}', host, [entries[0], extra[0]]])
        spec['sel'].append([f'L{n + 1}', host, entries[1:] + [extra[1]]])
    below = rng.choice(xs)
    spec['sel'].append([f'L{n + 2}', below, [extra[2]] if rng.random() < 0.4 else [extra[2], extra[3]]])
    used = {o for c in spec['sel'] for o in c[2]}
    spec['nodes'] = [x for x in spec['nodes'] if x not in extra or x in used]
    return spec


def add_reconvergent(rng, spec):
    """Motif: reconvergent derivation paths A -> P -> K, A -> Q -> K with a nested choice below K, and two further options
    (of other choices) that enter the diamond at K, P or Q. Acyclic. Generic shape for traversal caches keyed by node:
    K is reached twice within one walk, and the intermediate nodes are later reached from other entries."""
    spec = copy.deepcopy(spec)
    base = max(int(n[1:]) for n in spec['nodes']) + 1
    names = [f'N{base + i}' for i in range(12)]
    a, pp, q, k, k1, b, d, alt1, alt2, alt3, x, y = names
    spec['nodes'] += names
    edges = [[a, pp], [a, q], [pp, k], [q, k], [b, rng.choice([k, k, pp, q])], [d, rng.choice([q, q, pp, k])]]
    below = k
    if rng.random() < 0.6:
        edges.append([k, k1])
        below = k1
    rng.shuffle(edges)
    spec['derive'] += edges
    n = len(spec['sel'])
    host = spec['start'][0]
    host2 = host
    if rng.random() < 0.5:  # the third choice sits on another permanent node
        host2 = f'N{base + 12}'
        spec['nodes'].append(host2)
        spec['derive'].append([host, host2])
    first = [b, a, alt1]
    rng.shuffle(first)
    spec['sel'].append([f'R{n}', host, first])
    spec['sel'].append([f'R{n + 1}', below, [x, y]])
    third = [d, alt2]
    rng.shuffle(third)
    spec['sel'].append([f'R{n + 2}', host2, third])
    if alt3 not in [o for c in spec['sel'] for o in c[2]]:
        spec['nodes'].remove(alt3)
    return spec


def _ancestors(node, derive, sel):
    """Nodes from which `node` is reachable over derivation edges and origin->option edges."""
    preds = {}
    for a, b in derive:
        preds.setdefault(b, set()).add(a)
    for cid, origin, opts in sel:
        for o in opts:
            preds.setdefault(o, set()).add(origin)
    seen, todo = set(), [node]
    while todo:
        x = todo.pop()
        for p in preds.get(x, ()):
            if p not in seen:
                seen.add(p)
                todo.append(p)
    return seen


def gen_tree_spec(rng, n_incompat_max=0, max_choices=4, p_multi_start=0.15):
    """Clean hierarchical spec: every option node is offered by exactly one choice and derived by nothing else, the
    structure is acyclic, choices nest under options or under nodes derived by options; plain nodes may be derived by
    several nodes. (The shapes on which the unchanged library is known to be defective - circular structures, shared
    options, options reachable from sibling options - are the business of the C02 / C06 checks.)"""
    names = []

    def fresh():
        names.append(f'N{len(names)}')
        return names[-1]

    start = [fresh()]
    derive = []
    plain = list(start)  # nodes that may host choices / derive others
    for _ in range(rng.randint(0, 3)):
        n = fresh()
        derive.append([rng.choice(plain), n])
        plain.append(n)
    if rng.random() < p_multi_start:
        s2 = fresh()
        start.append(s2)
        plain.append(s2)
    sel = []
    option_nodes = []
    n_choices = rng.randint(min(1, max_choices), max_choices) if rng.random() < 0.92 else 0
    for c in range(n_choices):
        hosts = plain + option_nodes
        # prefer nesting: hosts that are options (or derived by options) make the choice conditionally active
        origin = rng.choice(option_nodes) if option_nodes and rng.random() < 0.55 else rng.choice(hosts)
        k = rng.choice([1, 2, 2, 2, 3, 3, 4])
        opts = [fresh() for _ in range(k)]
        sel.append([f'C{c}', origin, opts])
        for o in opts:
            option_nodes.append(o)
            if rng.random() < 0.35:  # the option derives a plain node of its own
                n = fresh()
                derive.append([o, n])
                plain.append(n)
            elif rng.random() < 0.15 and len(plain) > len(start):  # ... or an existing plain (non-start) node
                anc = _ancestors(o, derive, sel)  # never an ancestor of the option: the structure stays acyclic
                cands = [x for x in plain if x not in start and x not in anc and x != o]
                if cands:
                    t = rng.choice(cands)
                    if [o, t] not in derive:
                        derive.append([o, t])
    incompat = []
    if n_incompat_max and len(option_nodes) >= 2:
        for _ in range(rng.randint(0 if rng.random() < 0.15 else 1, n_incompat_max)):
            a, b = rng.sample(option_nodes, 2)
            if [a, b] not in incompat and [b, a] not in incompat:
                incompat.append([a, b])
    rng.shuffle(derive)
    if rng.random() < 0.5:  # choice ids independent of the hierarchy level (ids decide the tie-break of choice order)
        ids = [c[0] for c in sel]
        rng.shuffle(ids)
        for c, i in zip(sel, ids):
            c[0] = i
    spec = {'nodes': list(names), 'derive': derive, 'sel': sel, 'incompat': incompat, 'start': start}
    return drop_unreachable(spec)


def drop_unreachable(spec):
    """Remove everything that cannot be reached from the start nodes (even with all options counted as derived)."""
    from simkit.ref_sem import Spec
    u = Spec(spec).reachable_universe()
    s = copy.deepcopy(spec)
    s['nodes'] = [x for x in s['nodes'] if x in u]
    s['derive'] = [e for e in s['derive'] if e[0] in u and e[1] in u]
    s['sel'] = [c for c in s['sel'] if c[1] in u]
    s['incompat'] = [p for p in s['incompat'] if p[0] in u and p[1] in u]
    for key in ('dv', 'metrics'):
        if key in s:
            s[key] = [x for x in s[key] if x['host'] in u]
    return s


def clean_incompat(spec):
    """Keep only incompatibility pairs between option nodes whose unconditional consequences (derivation edges and forced
    single-option choices) neither contain each other's end nor anything that is always present: no node contradicts
    itself and no conflict is forced (those degenerate shapes are the subject of the C06 / C02 checks)."""
    from simkit.ref_sem import Spec
    so = Spec(spec)

    def forced(n0):
        seen, todo = set(), [n0]
        while todo:
            x = todo.pop()
            if x in seen:
                continue
            seen.add(x)
            todo.extend(so.derive.get(x, []))
            for cid in so.sel_by_origin.get(x, []):
                if len(so.sel[cid][1]) == 1:
                    todo.extend(so.sel[cid][1])
        return seen

    always = set()
    for st in spec['start']:
        always |= forced(st)
    opts = {o for c in spec['sel'] for o in c[2]}
    derived_targets = {t for (_, t) in map(tuple, spec['derive'])}
    import networkx as nx
    g = nx.DiGraph()
    g.add_nodes_from(spec['nodes'])
    g.add_edges_from(map(tuple, spec['derive']))
    for cid, origin, copts in spec['sel']:
        for o in copts:
            g.add_edge(origin, o)
    forced_all = {n: forced(n) for n in spec['nodes']}
    keep = []
    for a, b in spec['incompat']:
        fa, fb = forced_all[a], forced_all[b]
        related = b in nx.descendants(g, a) or a in nx.descendants(g, b)  # ancestor / descendant: one can never exist
        together = any(a in f and b in f for f in forced_all.values())  # forced together by some node
        # a node whose presence forces something incompatible with either end
        if a in opts and b in opts and a not in always and b not in always and not (fa & fb) \
                and a not in derived_targets and b not in derived_targets and not related and not together:
            keep.append([a, b])
    # an option that conflicts with *every* option of another choice can never be chosen while that choice is active. The
    # unchanged fast encoder handles this only in the flat case: both choices permanently active and the blocked option
    # a leaf (nothing derived or chosen below it); elsewhere one of the pairs is dropped.
    incs = {tuple(sorted(p)) for p in keep}
    choice_of = {o: c for c in spec['sel'] for o in c[2]}
    for x in sorted(opts):
        for c in spec['sel']:
            if x in c[2] or not c[2]:
                continue
            if all(tuple(sorted((x, o))) in incs for o in c[2]):
                leaf = not so.derive.get(x) and not so.sel_by_origin.get(x)
                flat = c[1] in always and choice_of[x][1] in always
                if not (leaf and flat):
                    incs.discard(tuple(sorted((x, c[2][-1]))))
    keep = [p for p in keep if tuple(sorted(p)) in incs]
    s2 = copy.deepcopy(spec)
    s2['incompat'] = keep
    return s2


def has_unreachable(spec):
    from simkit.ref_sem import Spec
    u = Spec(spec).reachable_universe()
    return any(x not in u for x in spec['nodes'])


class Built:
    def __init__(self, dsg, nodes, choices, raw):
        self.dsg = dsg  # initialized DSG (after set_start_nodes), or None if construction raised
        self.nodes = nodes  # name -> node object
        self.choices = choices  # choice id -> SelectionChoiceNode / ConnectionChoiceNode
        self.raw = raw  # the BasicDSG before set_start_nodes


def build(spec, initialize=True, staged=None):
    """staged: None, ['start', name] (initialise once with {name} as the only start node, then again with the real start
    nodes, on the same builder object) or ['edge', i] (initialise once without derivation edge i, add it, initialise
    again): the result must be what a direct build gives."""
    from adsg_core.graph.adsg_basic import BasicDSG
    from adsg_core.graph.adsg_nodes import NamedNode
    nodes = {name: NamedNode(name) for name in spec['nodes']}
    g = BasicDSG()
    for name in spec['nodes']:
        g.add_node(nodes[name])
    late_edge = None
    derive = list(spec['derive'])
    if staged and staged[0] == 'edge' and derive:
        late_edge = derive.pop(staged[1] % len(derive))
    choices = {}
    if spec.get('order_seed') is None:
        g.add_edges([(nodes[s], nodes[t]) for s, t in derive])
        for cid, origin, opts in spec['sel']:
            choices[cid] = g.add_selection_choice(cid, nodes[origin], [nodes[o] for o in opts])
    else:
        # construction order as a dimension: derivation edges and selection choices are added interleaved in a seeded
        # order (the in- and out-edge iteration order of a node is the insertion order)
        import random as _random
        items = [('d', e) for e in derive] + [('s', c) for c in spec['sel']]
        _random.Random(spec['order_seed']).shuffle(items)
        for kind, it in items:
            if kind == 'd':
                g.add_edge(nodes[it[0]], nodes[it[1]])
            else:
                choices[it[0]] = g.add_selection_choice(it[0], nodes[it[1]], [nodes[o] for o in it[2]])
    for a, b in spec.get('incompat', []):
        g.add_incompatibility_constraint([nodes[a], nodes[b]])
    from adsg_core.graph.adsg_nodes import DesignVariableNode, MetricNode
    for dv in spec.get('dv', []):
        if 'bounds' in dv:
            node = DesignVariableNode(dv['name'], bounds=tuple(dv['bounds']))
        else:
            node = DesignVariableNode(dv['name'], options=list(dv['options']))
        nodes[dv['name']] = node
        g.add_edge(nodes[dv['host']], node)
    for m in spec.get('metrics', []):
        node = MetricNode(m['name'], direction=m.get('dir'), ref=m.get('ref'))
        nodes[m['name']] = node
        g.add_edge(nodes[m['host']], node)
    from adsg_core.graph.adsg_nodes import ConnectorNode, ConnectorDegreeGroupingNode

    def mk_conn(c):
        kw = {}
        d = c['deg']
        if isinstance(d, list):
            kw['deg_list'] = list(d)
        else:
            lo, hi = d.split('..')
            kw['deg_min'] = int(lo)
            kw['deg_max'] = None if hi == '*' else int(hi)
        node = ConnectorNode(c['name'], repeated_allowed=bool(c.get('rep')), **kw)
        nodes[c['name']] = node
        g.add_edge(nodes[c['host']], node)
        return node

    for cc in spec.get('conn', []):
        sides = []
        for side in ('src', 'tgt'):
            lst = []
            for c in cc[side]:
                if 'group' in c:
                    grp = ConnectorDegreeGroupingNode(c['group'])
                    nodes[c['group']] = grp
                    lst.append((grp, [mk_conn(m) for m in c['members']]))
                else:
                    lst.append(mk_conn(c))
            sides.append(lst)
        excl = [(nodes[a], nodes[b]) for a, b in cc.get('exclude', [])] or None
        choices[cc['id']] = g.add_connection_choice(cc['id'], sides[0], sides[1], exclude=excl)
    built = Built(None, nodes, choices, g)
    if initialize:
        if staged and staged[0] == 'start' and staged[1] in nodes:
            try:
                g.set_start_nodes({nodes[staged[1]]})
            except Exception:
                pass  # the first, provisional initialisation may legitimately fail; the second one is what counts
        elif late_edge is not None:
            try:
                g.set_start_nodes({nodes[s] for s in spec['start']})
            except Exception:
                pass
            g.add_edge(nodes[late_edge[0]], nodes[late_edge[1]])
        built.dsg = g.set_start_nodes({nodes[s] for s in spec['start']})
        if spec.get('constraints'):
            from adsg_core.graph.adsg_basic import ChoiceConstraintType
            kinds = {'linked': ChoiceConstraintType.LINKED, 'permutation': ChoiceConstraintType.PERMUTATION,
                     'unordered': ChoiceConstraintType.UNORDERED, 'unordered_norepl': ChoiceConstraintType.UNORDERED_NOREPL}
            for kind, cids in spec['constraints']:
                present = [choices[c] for c in cids if choices[c] in built.dsg.graph.nodes]
                if len(present) >= 2:
                    built.dsg = built.dsg.constrain_choices(kinds[kind], present)
    return built


def add_dv_metrics(rng, spec, n_dv_max=2, n_metric_max=2):
    """Design-variable and metric nodes hosted on random named nodes (conditional when the host is)."""
    spec = copy.deepcopy(spec)
    hosts = spec['nodes']
    spec['dv'] = []
    for i in range(rng.randint(0, n_dv_max)):
        host = rng.choice(hosts)
        if rng.random() < 0.5:
            lo = rng.choice([0.0, -1.0, 2.5])
            spec['dv'].append({'name': f'D{i}', 'host': host, 'bounds': [lo, lo + rng.choice([1.0, 2.0, 10.0])]})
        else:
            spec['dv'].append({'name': f'D{i}', 'host': host, 'options': list(range(10, 10 + rng.randint(1, 3)))})
    spec['metrics'] = []
    for i in range(rng.randint(0, n_metric_max)):
        spec['metrics'].append({'name': f'M{i}', 'host': rng.choice(hosts), 'dir': rng.choice([-1, 1]),
                                'ref': rng.choice([None, 1.0])})
    return spec


CONN_DEGS = [[1], [1], [0, 1], [1, 2], [0, 1, 2], [2], '0..*', '1..*', '1..2', '0..1', [1, 3]]


def add_conn_choice(rng, spec, cid='X0', p_group=0.2, p_cond=0.5, max_side=3):
    """One connection choice: 1-3 sources and targets hosted on the start node (permanent) or on other named nodes
    (conditional when the host is); at least one source is permanent so that the choice is always active."""
    spec = copy.deepcopy(spec)
    hosts = [h for h in spec['nodes']]
    start = spec['start'][0]
    k = len(spec.get('conn', []))

    def conn(name, permanent):
        d = rng.choice(CONN_DEGS)
        host = start if permanent or rng.random() > p_cond else rng.choice(hosts)
        return {'name': name, 'host': host, 'deg': copy.deepcopy(d),
                'rep': (not isinstance(d, str) or not d.endswith('*')) and rng.random() < 0.3}

    cc = {'id': cid, 'src': [], 'tgt': [], 'exclude': []}
    ns, nt = rng.randint(1, max_side), rng.randint(1, max_side)
    for i in range(ns):
        cc['src'].append(conn(f'S{k}{i}', permanent=(i == 0)))
    for j in range(nt):
        if rng.random() < p_group and nt - j >= 1:
            mem = [conn(f'T{k}{j}a', False), conn(f'T{k}{j}b', False)]
            if any(isinstance(m['deg'], str) and m['deg'].endswith('*') for m in mem):
                for m in mem:
                    m['rep'] = False  # an open-ended group stays non-repeating (no undocumented parallel limit)
            cc['tgt'].append({'group': f'G{k}{j}', 'members': mem})
        else:
            cc['tgt'].append(conn(f'T{k}{j}', permanent=False))
    flat_s = [c['name'] for c in cc['src']]
    flat_t = [c.get('name') or c['group'] for c in cc['tgt']]
    for a in flat_s:
        for b in flat_t:
            if rng.random() < 0.1:
                cc['exclude'].append([a, b])
    spec.setdefault('conn', []).append(cc)
    return spec


def add_index_constraint(rng, spec, kind, hierarchical=True):
    """A PERMUTATION / UNORDERED / UNORDERED_NOREPL constraint over two or three selection choices (one of them
    permanently active; choice order = order of the choice ids, as the library sorts them). UNORDERED kinds need equal
    option counts: the option lists are cut to the shortest."""
    assert kind in ('permutation', 'unordered', 'unordered_norepl')
    spec = copy.deepcopy(spec)
    from simkit.ref_sem import Spec
    so = Spec(spec)
    always = set()
    todo = list(spec['start'])
    while todo:
        x = todo.pop()
        if x in always:
            continue
        always.add(x)
        todo.extend(so.derive.get(x, []))
        for cid in so.sel_by_origin.get(x, []):
            if len(so.sel[cid][1]) == 1:
                todo.extend(so.sel[cid][1])
    taken = {c for _, cids in spec.get('constraints', []) for c in cids}
    permanent = [c for c in spec['sel'] if c[1] in always and len(c[2]) >= 2 and c[0] not in taken]
    if not permanent:
        return spec
    anchor = rng.choice(permanent)
    others = [c for c in spec['sel'] if c is not anchor and len(c[2]) >= 2 and c[0] not in taken
              and (hierarchical or c[1] in always)]
    if not others:
        return spec
    mates = rng.sample(others, 1 if len(others) == 1 or rng.random() < 0.7 else 2)
    group = [anchor] + mates
    if kind != 'permutation':
        n = min(len(c[2]) for c in group)
        for c in group:
            c[2][:] = c[2][:n]
        spec = drop_unreachable(spec)
    ids = {c[0] for c in spec['sel']}
    grp = sorted(c[0] for c in group)
    if all(i in ids for i in grp) and all(len(c[2]) >= 2 for c in spec['sel'] if c[0] in grp):
        spec.setdefault('constraints', []).append([kind, grp])
    return spec


def add_linked_constraint(rng, spec, hierarchical=True):
    """A LINKED constraint between two (rarely three) selection choices with equal option counts; with
    `hierarchical` the choices may sit on different levels, otherwise only choices on start nodes are taken."""
    spec = copy.deepcopy(spec)
    from simkit.ref_sem import Spec
    so = Spec(spec)
    always = set()
    todo = list(spec['start'])
    while todo:  # permanently present nodes: start nodes, what they derive, options of single-option choices on them
        x = todo.pop()
        if x in always:
            continue
        always.add(x)
        todo.extend(so.derive.get(x, []))
        for cid in so.sel_by_origin.get(x, []):
            if len(so.sel[cid][1]) == 1:
                todo.extend(so.sel[cid][1])
    permanent = [c for c in spec['sel'] if c[1] in always and len(c[2]) >= 2]
    if not permanent:
        return spec
    # the group always contains a permanently active choice (the unchanged fast encoder keeps only the hierarchy-first
    # choice of a linked group free and loses architectures when that one is conditionally active - out of scope here)
    anchor = rng.choice(permanent)
    others = [c for c in spec['sel'] if c is not anchor and len(c[2]) >= 2 and (hierarchical or c[1] in always)]
    if not others:
        return spec
    mates = rng.sample(others, 1 if len(others) == 1 or rng.random() < 0.8 else 2)
    n = min(len(c[2]) for c in [anchor] + mates)
    for c in [anchor] + mates:
        c[2][:] = c[2][:n]
    spec = drop_unreachable(spec)
    ids = {c[0] for c in spec['sel']}
    grp = sorted(c[0] for c in [anchor] + mates)
    if all(i in ids for i in grp) and n >= 2:
        spec.setdefault('constraints', []).append(['linked', grp])
    return spec
    by_n = {}
    for cid, origin, opts in spec['sel']:
        if len(opts) >= 2 and (hierarchical or origin in spec['start']):
            by_n.setdefault(len(opts), []).append(cid)
    groups = [v for v in by_n.values() if len(v) >= 2]
    if not groups:
        # equalise: cut the option list of the larger of two eligible choices (unreachable leftovers are dropped)
        elig = [c for c in spec['sel'] if len(c[2]) >= 2 and (hierarchical or c[1] in spec['start'])]
        if len(elig) < 2:
            return spec
        a, b = rng.sample(elig, 2)
        n = min(len(a[2]), len(b[2]))
        a[2][:] = a[2][:n]
        b[2][:] = b[2][:n]
        spec = drop_unreachable(spec)
        ids = {c[0] for c in spec['sel']}
        if a[0] not in ids or b[0] not in ids:
            return spec
        spec.setdefault('constraints', []).append(['linked', sorted([a[0], b[0]])])
        return spec
    g = rng.choice(groups)
    k = 2 if len(g) == 2 or rng.random() < 0.8 else 3
    spec.setdefault('constraints', []).append(['linked', sorted(rng.sample(g, k))])
    return spec


def label(node):
    """Identity-free label of a library node."""
    n = getattr(node, 'name', None)
    if n is not None and not hasattr(node, 'decision_sort_key'):
        return n
    return f'<{type(node).__name__}:{getattr(node, "decision_id", None)}>'


def observe_nodes(dsg):
    return sorted(label(n) for n in dsg.graph.nodes)


def observe_edges(dsg):
    from adsg_core.graph.graph_edges import get_edge_type
    out = []
    for e in dsg.graph.edges(keys=True, data=True):
        et = get_edge_type((e[0], e[1], e[2], e[3]))
        out.append((label(e[0]), label(e[1]), e[2], et.name if et is not None else None))
    return sorted(out, key=repr)
