"""Generator of connector settings specs (plain data, see ref_conn.py) and builder of the library's MatrixGenSettings."""
import copy
import itertools

NODE_KINDS = [
    {'conns': [1]}, {'conns': [1]}, {'conns': [0, 1]}, {'conns': [1, 2]}, {'conns': [0, 1, 2]}, {'conns': [2]},
    {'conns': [1, 3]}, {'conns': [0, 2]}, {'conns': [0, 1, 2, 3]}, {'min': 0}, {'min': 1}, {'conns': [1, 2, 3]},
]


def gen_node(rng):
    n = copy.deepcopy(rng.choice(NODE_KINDS))
    if 'min' in n:
        n['rep'] = rng.random() < 0.3  # open-ended and repeating: bounded only by the parallel limit
    else:
        n['rep'] = rng.random() < 0.4
    return n


def gen_settings_spec(rng, max_n=3, p_patterns=0.5, degenerate=False):
    if degenerate:
        ns, nt = rng.choice([(1, 1), (1, 1), (1, 2), (2, 1)])
        src = [{'conns': [1], 'rep': False} for _ in range(ns)]
        tgt = [rng.choice([{'conns': [1], 'rep': False}, {'min': 1, 'rep': False}, {'conns': [ns], 'rep': False}])
               for _ in range(nt)]
        spec = {'src': src, 'tgt': copy.deepcopy(tgt), 'excluded': [], 'patterns': None}
        if rng.random() < 0.3:
            spec['excluded'] = [[0, 0]]
        return spec
    ns, nt = rng.randint(1, max_n), rng.randint(1, max_n)
    spec = {'src': [gen_node(rng) for _ in range(ns)], 'tgt': [gen_node(rng) for _ in range(nt)], 'excluded': [],
            'patterns': None}
    for i in range(ns):
        for j in range(nt):
            if rng.random() < 0.12:
                spec['excluded'].append([i, j])
    if rng.random() < p_patterns:
        sc = [rng.random() < 0.4 for _ in range(ns)]
        tc = [rng.random() < 0.4 for _ in range(nt)]
        if any(sc) or any(tc):
            pats = []
            for se in itertools.product(*[[True, False] if c else [True] for c in sc]):
                for te in itertools.product(*[[True, False] if c else [True] for c in tc]):
                    pats.append({'src': list(se), 'tgt': list(te)})
            rng.shuffle(pats)
            pats = pats[:rng.randint(1, 4)]
            spec['patterns'] = pats
    if rng.random() < 0.2:
        spec['max_par'] = rng.choice([1, 2, 2, 3, 3])  # explicit limit on parallel connections (None: derived default)
    return spec


def gen_parallel_spec(rng):
    """Settings in which the limit on parallel connections binds: open-ended repeating nodes on both sides, one bounded
    node with a large degree, and existence patterns in which that node is absent (the default limit is derived from the
    nodes present)."""
    src = [{'min': rng.choice([0, 1]), 'rep': True}]
    tgt = [{'min': rng.choice([0, 1]), 'rep': True}]
    big = {'conns': rng.choice([[0, 3], [1, 3], [3], [0, 1, 2, 3]]), 'rep': rng.random() < 0.5}
    side = rng.choice(['src', 'tgt'])
    (src if side == 'src' else tgt).append(big)
    if rng.random() < 0.4:
        (src if rng.random() < 0.5 else tgt).insert(0, gen_node(rng))
    idx = (src if side == 'src' else tgt).index(big)
    pats = [{'src': [True] * len(src), 'tgt': [True] * len(tgt)}, {'src': [True] * len(src), 'tgt': [True] * len(tgt)}]
    pats[1][side][idx] = False
    if rng.random() < 0.5:
        pats.reverse()
    spec = {'src': src, 'tgt': tgt, 'excluded': [], 'patterns': pats}
    if rng.random() < 0.3:
        spec['max_par'] = rng.choice([2, 3])
    return spec


def variant(rng, spec, kinds=None):
    """A setting that differs from `spec` in exactly one attribute (for the cache-key clause)."""
    s = copy.deepcopy(spec)
    kind = rng.choice(kinds or ['degree', 'rep', 'exclude', 'pattern', 'transpose', 'permute_patterns',
                                'permute_patterns', 'max_par'])
    if kind == 'max_par':
        # unset <-> explicit: the explicit value equal to the default derived from ALL nodes is the interesting one
        # (equal behaviour when every node is present, different behaviour in patterns that lack the largest node)
        glob = max([2] + [max(n['conns']) for side in ('src', 'tgt') for n in s[side] if 'conns' in n])
        if s.get('max_par') is None:
            s['max_par'] = rng.choice([glob, glob, glob, 1, 2, 3])
        else:
            s['max_par'] = rng.choice([None, None, s['max_par'] + 1, max(1, s['max_par'] - 1)])
        return s if s != spec else variant(rng, spec)
    if kind == 'permute_patterns':
        # the same existence patterns in another order: a different setting (patterns are addressed by index)
        if not s['patterns'] or len(s['patterns']) < 2:
            sc = [True] + [False] * (len(s['src']) - 1)
            s['patterns'] = [{'src': [True] * len(s['src']), 'tgt': [True] * len(s['tgt'])},
                             {'src': [True] * len(s['src']), 'tgt': [False] + [True] * (len(s['tgt']) - 1)}]
            return s if s != spec else variant(rng, spec)
        s['patterns'] = list(reversed(s['patterns']))
        return s if s != spec else variant(rng, spec)
    if kind == 'degree':
        side = rng.choice(['src', 'tgt'])
        n = rng.choice(s[side])
        if 'conns' in n:
            n['conns'] = sorted(set(n['conns']) ^ {rng.choice([0, 1, 2, 3])}) or [1]
        else:
            n['min'] = 1 - n['min']
    elif kind == 'rep':
        side = rng.choice(['src', 'tgt'])
        cands = [n for n in s[side] if 'conns' in n]
        if not cands:
            return variant(rng, spec)
        n = rng.choice(cands)
        n['rep'] = not n['rep']
    elif kind == 'exclude':
        i, j = rng.randrange(len(s['src'])), rng.randrange(len(s['tgt']))
        if [i, j] in s['excluded']:
            s['excluded'].remove([i, j])
        else:
            s['excluded'].append([i, j])
    elif kind == 'pattern':
        if s['patterns']:
            if len(s['patterns']) > 1:
                s['patterns'].pop()
            else:
                s['patterns'] = None
        else:
            s['patterns'] = [{'src': [True] * len(s['src']), 'tgt': [True] * len(s['tgt'])},
                             {'src': [False] + [True] * (len(s['src']) - 1), 'tgt': [True] * len(s['tgt'])}]
    else:
        s = {'src': s['tgt'], 'tgt': s['src'], 'excluded': [[j, i] for i, j in s['excluded']],
             'patterns': None if not s['patterns'] else [{'src': p['tgt'], 'tgt': p['src']} for p in s['patterns']],
             **({'max_par': s['max_par']} if s.get('max_par') is not None else {})}
    if s == spec:
        return variant(rng, spec)
    return s


def build(spec):
    """-> (MatrixGenSettings, [NodeExistence per pattern in spec order])"""
    from adsg_core.optimization.assign_enc.matrix import Node, MatrixGenSettings, NodeExistencePatterns, NodeExistence

    def mk(n):
        if 'conns' in n:
            return Node(nr_conn_list=list(n['conns']), repeated_allowed=n.get('rep', False))
        return Node(min_conn=n['min'], repeated_allowed=n.get('rep', False))

    src = [mk(n) for n in spec['src']]
    tgt = [mk(n) for n in spec['tgt']]
    excluded = [(src[i], tgt[j]) for i, j in spec.get('excluded', [])] or None
    if spec.get('patterns'):
        exist = [NodeExistence(src_exists=list(p['src']), tgt_exists=list(p['tgt'])) for p in spec['patterns']]
        settings = MatrixGenSettings(src, tgt, excluded=excluded, existence=NodeExistencePatterns(patterns=exist),
                                     max_conn_parallel=spec.get('max_par'))
    else:
        exist = [NodeExistence()]
        settings = MatrixGenSettings(src, tgt, excluded=excluded, max_conn_parallel=spec.get('max_par'))
    return settings, exist
