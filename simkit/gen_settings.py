"""Generator of connector settings specs (plain data, see ref_conn.py) and builder of the library's MatrixGenSettings."""
import copy
import itertools

NODE_KINDS = [
    {'conns': [1]}, {'conns': [1]}, {'conns': [0, 1]}, {'conns': [1, 2]}, {'conns': [0, 1, 2]}, {'conns': [2]},
    {'conns': [1, 3]}, {'conns': [0, 2]}, {'conns': [0, 1, 2, 3]}, {'min': 0}, {'min': 1}, {'conns': [1, 2, 3]},
]


def gen_node(rng):
    n = copy.deepcopy(rng.choice(NODE_KINDS))
    if 'min' in n:
        n['rep'] = False  # open-ended nodes stay non-repeating (the parallel limit would otherwise be undocumented)
    else:
        n['rep'] = rng.random() < 0.4
    return n


def gen_settings_spec(rng, max_n=3, p_patterns=0.5, degenerate=False):
    if degenerate:
        ns, nt = rng.choice([(1, 1), (1, 1), (1, 2), (2, 1)])
        src = [{'conns': [1], 'rep': False} for _ in range(ns)]
        tgt = [rng.choice([{'conns': [1], 'rep': False}, {'min': 1, 'rep': False}, {'conns': [ns], 'rep': False}])
               for _ in range(nt)]
        spec = {'src': src, 'tgt': copy.deepcopy(tgt), 'excluded': [], 'patterns': None}
        if rng.random() < 0.3:
            spec['excluded'] = [[0, 0]]
        return spec
    ns, nt = rng.randint(1, max_n), rng.randint(1, max_n)
    spec = {'src': [gen_node(rng) for _ in range(ns)], 'tgt': [gen_node(rng) for _ in range(nt)], 'excluded': [],
            'patterns': None}
    for i in range(ns):
        for j in range(nt):
            if rng.random() < 0.12:
                spec['excluded'].append([i, j])
    if rng.random() < p_patterns:
        sc = [rng.random() < 0.4 for _ in range(ns)]
        tc = [rng.random() < 0.4 for _ in range(nt)]
        if any(sc) or any(tc):
            pats = []
            for se in itertools.product(*[[True, False] if c else [True] for c in sc]):
                for te in itertools.product(*[[True, False] if c else [True] for c in tc]):
                    pats.append({'src': list(se), 'tgt': list(te)})
            rng.shuffle(pats)
            pats = pats[:rng.randint(1, 4)]
            spec['patterns'] = pats
    return spec


def variant(rng, spec):
    """A setting that differs from `spec` in exactly one attribute (for the cache-key clause)."""
    s = copy.deepcopy(spec)
    kind = rng.choice(['degree', 'rep', 'exclude', 'pattern', 'transpose', 'permute_patterns', 'permute_patterns'])
    if kind == 'permute_patterns':
        # the same existence patterns in another order: a different setting (patterns are addressed by index)
        if not s['patterns'] or len(s['patterns']) < 2:
            sc = [True] + [False] * (len(s['src']) - 1)
            s['patterns'] = [{'src': [True] * len(s['src']), 'tgt': [True] * len(s['tgt'])},
                             {'src': [True] * len(s['src']), 'tgt': [False] + [True] * (len(s['tgt']) - 1)}]
            return s if s != spec else variant(rng, spec)
        s['patterns'] = list(reversed(s['patterns']))
        return s if s != spec else variant(rng, spec)
    if kind == 'degree':
        side = rng.choice(['src', 'tgt'])
        n = rng.choice(s[side])
        if 'conns' in n:
            n['conns'] = sorted(set(n['conns']) ^ {rng.choice([0, 1, 2, 3])}) or [1]
        else:
            n['min'] = 1 - n['min']
    elif kind == 'rep':
        side = rng.choice(['src', 'tgt'])
        cands = [n for n in s[side] if 'conns' in n]
        if not cands:
            return variant(rng, spec)
        n = rng.choice(cands)
        n['rep'] = not n['rep']
    elif kind == 'exclude':
        i, j = rng.randrange(len(s['src'])), rng.randrange(len(s['tgt']))
        if [i, j] in s['excluded']:
            s['excluded'].remove([i, j])
        else:
            s['excluded'].append([i, j])
    elif kind == 'pattern':
        if s['patterns']:
            if len(s['patterns']) > 1:
                s['patterns'].pop()
            else:
                s['patterns'] = None
        else:
            s['patterns'] = [{'src': [True] * len(s['src']), 'tgt': [True] * len(s['tgt'])},
                             {'src': [False] + [True] * (len(s['src']) - 1), 'tgt': [True] * len(s['tgt'])}]
    else:
        s = {'src': s['tgt'], 'tgt': s['src'], 'excluded': [[j, i] for i, j in s['excluded']],
             'patterns': None if not s['patterns'] else [{'src': p['tgt'], 'tgt': p['src']} for p in s['patterns']]}
    if s == spec:
        return variant(rng, spec)
    return s


def build(spec):
    """-> (MatrixGenSettings, [NodeExistence per pattern in spec order])"""
    from adsg_core.optimization.assign_enc.matrix import Node, MatrixGenSettings, NodeExistencePatterns, NodeExistence

    def mk(n):
        if 'conns' in n:
            return Node(nr_conn_list=list(n['conns']), repeated_allowed=n.get('rep', False))
        return Node(min_conn=n['min'], repeated_allowed=n.get('rep', False))

    src = [mk(n) for n in spec['src']]
    tgt = [mk(n) for n in spec['tgt']]
    excluded = [(src[i], tgt[j]) for i, j in spec.get('excluded', [])] or None
    if spec.get('patterns'):
        exist = [NodeExistence(src_exists=list(p['src']), tgt_exists=list(p['tgt'])) for p in spec['patterns']]
        settings = MatrixGenSettings(src, tgt, excluded=excluded, existence=NodeExistencePatterns(patterns=exist))
    else:
        exist = [NodeExistence()]
        settings = MatrixGenSettings(src, tgt, excluded=excluded)
    return settings, exist
