"""Seam S4: identities of id-less nodes.  `DSGNode.update_node_id` computes hash(obj_id or id(self)); the memory address
makes the iteration order of every set of nodes an accident of allocation. The simulator rebinds the method so that the
identity of an id-less node is drawn from the run's `ids` stream: unique (as `id` is), but seeded - set iteration order
becomes a scheduled choice that a replay reproduces."""
import random

_state = {'rng': None, 'used': set(), 'orig': None}


def install(seed):
    from adsg_core.graph import adsg_nodes
    cls = adsg_nodes.DSGNode
    if _state['orig'] is None:
        _state['orig'] = cls.update_node_id
    _state['rng'] = random.Random(seed)
    _state['used'] = set()

    def update_node_id(self):
        if self._obj_id:
            self._id = hash(self._obj_id)
            return
        rng, used = _state['rng'], _state['used']
        while True:
            v = rng.getrandbits(40) + 1
            if v not in used:
                used.add(v)
                break
        self._id = v

    cls.update_node_id = update_node_id


def reseed(seed):
    _state['rng'] = random.Random(seed)


def uninstall():
    if _state['orig'] is not None:
        from adsg_core.graph import adsg_nodes
        adsg_nodes.DSGNode.update_node_id = _state['orig']
        _state['orig'] = None
