"""Peer interpreter: a long-lived process started with another PYTHONHASHSEED that answers requests, each in a fresh fork
of its own pristine image (so an answer is a pure function of the request and the peer's hash seed).

Protocol (stdin/stdout, binary): request = 8-byte length + pickle(dict); response = 8-byte length + pickle(dict)."""
import os
import sys
import struct
import pickle


def _read_exact(f, n):
    buf = b''
    while len(buf) < n:
        c = f.read(n - len(buf))
        if not c:
            return None
        buf += c
    return buf


def serve():
    verif, repo = sys.argv[1], sys.argv[2]
    sys.path.insert(0, verif)
    sys.path.insert(0, repo)
    from checks import c18
    c18.warmup()
    fin = sys.stdin.buffer
    fout = os.fdopen(os.dup(1), 'wb')  # protocol channel; everything the library prints goes to /dev/null
    devnull = os.open(os.devnull, os.O_WRONLY)
    os.dup2(devnull, 1)
    sys.stdout = open(os.devnull, 'w')
    fout.write(b'READY\n')
    fout.flush()
    while True:
        hdr = _read_exact(fin, 8)
        if hdr is None:
            return
        (n,) = struct.unpack('<Q', hdr)
        req = pickle.loads(_read_exact(fin, n))
        r, w = os.pipe()
        pid = os.fork()
        if pid == 0:
            try:
                os.close(r)
                try:
                    res = c18.compute_side(req)
                except BaseException as e:
                    import traceback
                    res = {'error': traceback.format_exc()[-2000:]}
                data = pickle.dumps(res, protocol=4)
                os.write(w, struct.pack('<Q', len(data)))
                view = memoryview(data)
                while view:
                    k = os.write(w, view)
                    view = view[k:]
            finally:
                os._exit(0)
        os.close(w)
        with os.fdopen(r, 'rb') as pf:
            h = _read_exact(pf, 8)
            data = _read_exact(pf, struct.unpack('<Q', h)[0]) if h else pickle.dumps({'error': 'peer child died'})
        os.waitpid(pid, 0)
        fout.write(struct.pack('<Q', len(data)) + data)
        fout.flush()


class PeerClient:
    def __init__(self, hashseed, verif, repo):
        import subprocess
        env = dict(os.environ)
        env['PYTHONHASHSEED'] = str(hashseed)
        env['PYTHONDONTWRITEBYTECODE'] = '1'
        self.hashseed = hashseed
        self.p = subprocess.Popen([sys.executable, os.path.join(verif, 'simkit', 'peer.py'), verif, repo],
                                  stdin=subprocess.PIPE, stdout=subprocess.PIPE, env=env)
        line = self.p.stdout.readline()
        if line.strip() != b'READY':
            raise RuntimeError('peer did not start: %r' % line)

    def ask(self, req):
        data = pickle.dumps(req, protocol=4)
        self.p.stdin.write(struct.pack('<Q', len(data)) + data)
        self.p.stdin.flush()
        h = _read_exact(self.p.stdout, 8)
        if h is None:
            raise RuntimeError('peer died')
        return pickle.loads(_read_exact(self.p.stdout, struct.unpack('<Q', h)[0]))

    def close(self):
        try:
            self.p.stdin.close()
            self.p.wait(timeout=5)
        except Exception:
            self.p.kill()


if __name__ == '__main__':
    serve()
