"""R-conn: connection sets by brute force, from a textual settings spec only.

settings spec: {'src': [node...], 'tgt': [node...], 'excluded': [[i, j]...], 'patterns': [pattern...]}
node:    {'conns': [ints]} or {'min': m} (open-ended), plus 'rep': bool
pattern: {'src': [bool...], 'tgt': [bool...]}  (node present or absent; absent nodes take no connection)

A connection set for a pattern is an integer matrix M (|src| x |tgt|) with 0 <= M[i][j] <= cap[i][j], whose row sums are
allowed degrees of the source nodes and column sums allowed degrees of the target nodes (absent: exactly 0), where
cap[i][j] = 0 for excluded pairs, 1 if either end forbids repeated connections, otherwise the smallest of the parallel
limit (spec['max_par'], or the documented default when it is None - see parallel_limit) and the largest degree either
end can take."""
import itertools


def allowed(node, present=True):
    if not present:
        return lambda d: d == 0
    if 'conns' in node:
        s = set(node['conns'])
        return lambda d: d in s
    m = node['min']
    return lambda d: d >= m


def max_deg(node, present, other_n):
    if not present:
        return 0
    if 'conns' in node:
        return max(node['conns'])
    return None  # open-ended


def parallel_limit(spec, pattern):
    """The largest number of parallel connections between two nodes that both allow repeated connections: the settings'
    explicit `max_par` (at least 1) or, when unset, the documented default "at least 2, and enough for every bounded
    node to reach its largest degree" - taken over the nodes present in the pattern (the library derives the default
    from the effective settings of the pattern)."""
    mp = spec.get('max_par')
    if mp is not None:
        return max(1, mp)
    n = 2
    for side in ('src', 'tgt'):
        for k, node in enumerate(spec[side]):
            if pattern[side][k] and 'conns' in node:
                n = max(n, max(node['conns']))
    return n


def caps(spec, pattern):
    ns, nt = len(spec['src']), len(spec['tgt'])
    ex = {tuple(e) for e in spec.get('excluded', [])}
    cap = [[0] * nt for _ in range(ns)]
    n_par = parallel_limit(spec, pattern)
    for i, s in enumerate(spec['src']):
        for j, t in enumerate(spec['tgt']):
            if (i, j) in ex or not pattern['src'][i] or not pattern['tgt'][j]:
                continue
            if not s.get('rep', False) or not t.get('rep', False):
                cap[i][j] = 1
                continue
            ms, mt = max_deg(s, True, nt), max_deg(t, True, ns)
            cap[i][j] = min([n_par] + [m for m in (ms, mt) if m is not None])
    return cap


def matrices(spec, pattern):
    """All valid connection matrices of the pattern, as tuples of row tuples (sorted)."""
    ns, nt = len(spec['src']), len(spec['tgt'])
    cap = caps(spec, pattern)
    src_ok = [allowed(s, pattern['src'][i]) for i, s in enumerate(spec['src'])]
    tgt_ok = [allowed(t, pattern['tgt'][j]) for j, t in enumerate(spec['tgt'])]
    out = []
    rows_opts = []
    for i in range(ns):
        opts = [r for r in itertools.product(*[range(cap[i][j] + 1) for j in range(nt)]) if src_ok[i](sum(r))]
        rows_opts.append(opts)
    for combo in itertools.product(*rows_opts):
        if all(tgt_ok[j](sum(combo[i][j] for i in range(ns))) for j in range(nt)):
            out.append(tuple(combo))
    return sorted(out)


def all_patterns(spec):
    pats = spec.get('patterns')
    if not pats:
        return [{'src': [True] * len(spec['src']), 'tgt': [True] * len(spec['tgt'])}]
    return pats
