"""R-sem: executable reference semantics of a design space graph, working on the textual graph spec only.

Selection semantics (docs/theory.md, docstrings of choices.py / incompatibility.py):
  * the closure of an option assignment a is the least set of nodes containing the start nodes, closed under derivation
    edges, where a selection choice whose originating node is in the set is *active* and contributes origin -> a(choice);
  * an assignment is admissible iff every active choice has an option assigned and the closure contains no incompatible
    pair;
  * the architectures of a graph are the closures (with their origin->option wiring) of its admissible assignments.
"""
import itertools


class Spec:
    def __init__(self, d):
        self.d = d
        self.nodes = list(d['nodes'])
        self.start = list(d['start'])
        self.derive = {}
        for s, t in d.get('derive', []):
            self.derive.setdefault(s, []).append(t)
        self.sel = {c[0]: (c[1], list(c[2])) for c in d.get('sel', [])}
        self.sel_by_origin = {}
        for cid, (origin, opts) in self.sel.items():
            self.sel_by_origin.setdefault(origin, []).append(cid)
        self.incompat = [tuple(p) for p in d.get('incompat', [])]
        for x in list(d.get('dv', [])) + list(d.get('metrics', [])):
            self.nodes.append(x['name'])
            self.derive.setdefault(x['host'], []).append(x['name'])
        self.constraints = [(k, list(c)) for k, c in d.get('constraints', [])]
        self.conn = list(d.get('conn', []))
        for cc in self.conn:
            for side in ('src', 'tgt'):
                for c in cc[side]:
                    members = c['members'] if 'group' in c else [c]
                    for m in members:
                        self.nodes.append(m['name'])
                        self.derive.setdefault(m['host'], []).append(m['name'])
                        if 'group' in c:
                            self.derive.setdefault(m['name'], []).append(c['group'])
                    if 'group' in c:
                        self.nodes.append(c['group'])

    # -- connection choices
    @staticmethod
    def _degs(c):
        d = c['deg']
        if isinstance(d, list):
            return {'conns': sorted(d), 'rep': bool(c.get('rep'))}
        lo, hi = d.split('..')
        if hi == '*':
            return {'min': int(lo), 'rep': bool(c.get('rep'))}
        return {'conns': list(range(int(lo), int(hi) + 1)), 'rep': bool(c.get('rep'))}

    def conn_settings(self, cc, closure):
        """Connector settings (ref_conn format) of a connection choice for the connectors present in `closure`:
        -> (settings spec, pattern, source names, target names)."""
        import itertools

        def side(lst):
            out, names, present = [], [], []
            for c in lst:
                if 'group' in c:
                    mem = [m for m in c['members'] if m['name'] in closure]
                    names.append(c['group'])
                    present.append(bool(mem))
                    if not mem:
                        out.append({'conns': [0], 'rep': False})
                        continue
                    ds = [self._degs(m) for m in mem]
                    rep = any(d['rep'] for d in ds)
                    if any('min' in d for d in ds):
                        out.append({'min': sum(d['min'] if 'min' in d else min(d['conns']) for d in ds), 'rep': rep})
                    else:
                        out.append({'conns': sorted({sum(t) for t in itertools.product(*[d['conns'] for d in ds])}),
                                    'rep': rep})
                else:
                    names.append(c['name'])
                    present.append(c['name'] in closure)
                    out.append(self._degs(c))
            return out, names, present

        src, sn, sp = side(cc['src'])
        tgt, tn, tp = side(cc['tgt'])
        ex = [[sn.index(a), tn.index(b)] for a, b in cc.get('exclude', []) if a in sn and b in tn]
        return ({'src': src, 'tgt': tgt, 'excluded': ex, 'patterns': None}, {'src': sp, 'tgt': tp}, sn, tn)

    def reachable_universe(self):
        """Everything reachable from the start nodes when every option of every choice counts as derived."""
        seen = set()
        todo = list(self.start)
        while todo:
            n = todo.pop()
            if n in seen:
                continue
            seen.add(n)
            todo.extend(self.derive.get(n, []))
            for cid in self.sel_by_origin.get(n, []):
                todo.extend(self.sel[cid][1])
        return seen

    def closure(self, assign):
        """Returns (nodes, active choices, unassigned active choices)."""
        seen = set()
        active = set()
        todo = list(self.start)
        while todo:
            n = todo.pop()
            if n in seen:
                continue
            seen.add(n)
            todo.extend(self.derive.get(n, []))
            for cid in self.sel_by_origin.get(n, []):
                active.add(cid)
                if cid in assign:
                    todo.append(assign[cid])
        unassigned = sorted(c for c in active if c not in assign)
        return seen, active, unassigned

    def conflict(self, nodes):
        for a, b in self.incompat:
            if a in nodes and b in nodes:
                return (a, b)
        return None

    def enumerate(self, partial=None, limit=20000):
        """All admissible architectures extending `partial`: list of (frozenset nodes, assignment dict restricted to
        active choices). Raises OverflowError beyond `limit` leaves."""
        out = {}
        count = [0]

        def rec(assign):
            nodes, active, un = self.closure(assign)
            if self.conflict(nodes):
                return  # closures only grow: no completion can remove the pair
            if not un:
                a = {c: assign[c] for c in active}
                if not self.constraints_ok(a):
                    return
                out[(frozenset(nodes), tuple(sorted(a.items())))] = a
                count[0] += 1
                if count[0] > limit:
                    raise OverflowError
                return
            c = un[0]
            opts = self.sel[c][1]
            for o in opts:
                a2 = dict(assign)
                a2[c] = o
                rec(a2)

        rec(dict(partial or {}))
        return [(k[0], v) for k, v in sorted(out.items(), key=lambda kv: (sorted(kv[0][0]), kv[0][1]))]

    def constraints_ok(self, a):
        """Choice constraints over the choices that are active together (documented index relations)."""
        for kind, cids in self.constraints:
            idx = [self.sel[c][1].index(a[c]) for c in cids if c in a]
            if len(idx) < 2:
                continue
            if kind == 'linked' and len(set(idx)) != 1:
                return False
            if kind == 'permutation' and len(set(idx)) != len(idx):
                return False
            if kind == 'unordered' and any(x > y for x, y in zip(idx, idx[1:])):
                return False
            if kind == 'unordered_norepl' and any(x >= y for x, y in zip(idx, idx[1:])):
                return False
        return True

    def wiring(self, assign):
        return sorted((self.sel[c][0], o) for c, o in assign.items())
