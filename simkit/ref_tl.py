"""R-tl: the time limiter as a sequential object. Decides, from the recorded history of every call (also nested ones),
whether its outcome is one the contract allows. Event order is the simulator's global sequence number; simulated time
is only used for "strictly before the deadline"."""


def _deadline_for(sim, hist):
    """Deadline of the caller's timed wait that belongs to this call: first timed wait of the invoking thread after
    the invoke event and before the outcome."""
    inv = next((e for e in hist if e[0] == 'invoke'), None)
    out = next((e for e in hist if e[0] == 'outcome'), None)
    if inv is None:
        return None, None, None
    hi = out[1] if out else float('inf')
    waits = sim.timed_waits.get(inv[3], [])
    deadline = None
    expired_seq = None
    expired_at = None
    for k, (seq, dl, t) in enumerate(waits):
        if seq > inv[1] and seq < hi and dl is not None and deadline is None:
            deadline = dl
            if k + 1 < len(waits) and waits[k + 1][1] is None and waits[k + 1][0] < hi:
                expired_seq = waits[k + 1][0]
                expired_at = waits[k + 1][2]
            break
    return deadline, expired_seq, expired_at


def check(sim, ctx, outcomes, trace, interrupt_names):
    # 7. liveness: every (finite) scenario must produce an outcome for every call
    if outcomes and outcomes[-1][0] == 'abort':
        return ('C19/no-outcome', f'call {len(outcomes) - 1} produced no outcome: {outcomes[-1][1]}')
    # 5. nobody but a pool worker may die; no thread other than the targeted worker sees the interrupt
    for name, exc in sim.died:
        if not name.startswith('worker#'):
            return ('C19/interrupt-outside-worker', f'thread {name} died with {exc}')
    for seq, caller, target, tstate, running_cid in ctx.async_targets:
        if target is None or not target.startswith('worker#'):
            return ('C19/interrupt-outside-worker', f'asynchronous exception sent to {target} by {caller}')
    for cid in sorted(ctx.hist, key=lambda c: [int(x) for x in c.split('.')]):
        h = ctx.hist[cid]
        inv = next((e for e in h if e[0] == 'invoke'), None)
        out = next((e for e in h if e[0] == 'outcome'), None)
        if out is None:
            # a nested call whose caller was itself interrupted has no outcome of its own; its function must still
            # not be running once an enclosing call has returned (checked through `running` of the parent)
            continue
        kind = out[3][0]
        if '.' in cid and kind == 'exc' and any(n in interrupt_names for n in out[5]) \
                and any(t[2] == inv[3] for t in ctx.async_targets):
            # the invoking thread is itself the targeted worker of an enclosing call: the interrupt it received while
            # inside this nested call (possibly masked by an exception raised while handling it) is the enclosing call's. Only clause 4 applies, and
            # it is checked when the enclosing call returns (its `running` set includes this call).
            continue
        fstarts = [e for e in h if e[0] == 'fstart']
        fends = [e for e in h if e[0] == 'fend']
        wait_deadline, expired_seq, expired_at = _deadline_for(sim, h)
        deadline = inv[2] + inv[4]  # the requested limit, counted from the invocation (simulated time)
        last = fends[-1] if fends else None
        own = None  # the function's own completion (not the injected interrupt)
        if last is not None:
            if last[3] == 'ret':
                own = ('ret', last[4], last[2], last[1])
            elif last[4] not in interrupt_names:
                own = ('exc', last[4], last[2], last[1], last[5])
        if len(fstarts) > 1:
            return ('C19/invoked-twice', f'call {cid}: function started {len(fstarts)} times')
        if kind == 'ret':
            v = out[3][1]
            if own is None or own[0] != 'ret' or own[1] != v:
                return ('C19/wrong-result', f'call {cid} returned {v!r} but its function completed with {own}')
        elif kind == 'exc' and out[3][1] != 'TimeoutError':
            en = out[3][1]
            if en in interrupt_names:
                return ('C19/interrupt-outside-worker', f'call {cid}: caller received the interrupt ({en})')
            if own is None or own[0] != 'exc' or own[1] != en or own[4] != out[3][2]:
                return ('C19/wrong-exception', f'call {cid} raised {en}{out[3][2]} but its function completed with {own}')
        else:  # TimeoutError
            self_timeout = own is not None and own[0] == 'exc' and own[1] == 'TimeoutError'
            if expired_seq is None and not self_timeout:
                return ('C19/timeout-without-expiry', f'call {cid} raised TimeoutError but no deadline expired '
                                                      f'(deadline {deadline}, function: {own})')
            if expired_at is not None and expired_at < deadline and not self_timeout:
                return ('C19/early-timeout', f'call {cid} gave up at t={expired_at}, before its deadline {deadline}')
        # converse: finished strictly before the deadline => its own result / exception
        if own is not None and own[1] != 'WorkerDeath' and deadline is not None and own[2] < deadline \
                and (expired_seq is None or own[3] < expired_seq):
            if own[0] == 'ret' and not (kind == 'ret' and out[3][1] == own[1]):
                return ('C19/result-lost', f'call {cid}: function returned {own[1]!r} at t={own[2]} < deadline '
                                           f'{deadline} but the call gave {out[3]}')
            if own[0] == 'exc' and not (kind == 'exc' and out[3][1] == own[1]):
                return ('C19/exception-lost', f'call {cid}: function raised {own[1]} at t={own[2]} < deadline '
                                              f'{deadline} but the call gave {out[3]}')
        # "otherwise a timeout error": a function that completes strictly after the requested deadline cannot have its
        # result returned (in simulated time the caller's expiry at the deadline is always enabled before the clock moves)
        if own is not None and own[2] > deadline and (kind == 'ret' or out[3][1] != 'TimeoutError'):
            return ('C19/late-result', f'call {cid}: function completed at t={own[2]} > deadline {deadline} '
                                       f'but the call returned {out[3]}')
        # 4. nothing of this call (or of calls nested in it) still executes when it returns
        running = out[4]
        if running:
            return ('C19/still-running', f'call {cid} returned {out[3][:2]} while {sorted(running)} still execute(s)')
    return None
