"""One integer decides a run: splitmix64 derivation of run seeds and of named sub-streams.

Nothing in here reads a clock or any other ambient source."""
import hashlib
import random

MASK = (1 << 64) - 1


def splitmix64(x: int) -> int:
    x = (x + 0x9E3779B97F4A7C15) & MASK
    z = x
    z = ((z ^ (z >> 30)) * 0xBF58476D1CE4E5B9) & MASK
    z = ((z ^ (z >> 27)) * 0x94D049BB133111EB) & MASK
    return z ^ (z >> 31)


def run_seed(batch_seed: int, index: int) -> int:
    """Seed of run `index` of the batch started with VERIF_SEED=batch_seed."""
    return splitmix64(splitmix64(batch_seed & MASK) ^ ((index * 0xD1342543DE82EF95) & MASK)) >> 1


def stream_seed(seed: int, name: str) -> int:
    h = hashlib.sha256(f'{seed}/{name}'.encode()).digest()
    return int.from_bytes(h[:8], 'big')


class Streams:
    """Named, independent PRNG streams derived from one run seed (adding draws to one never shifts another)."""

    def __init__(self, seed: int):
        self.seed = seed
        self._s = {}

    def __call__(self, name: str) -> random.Random:
        r = self._s.get(name)
        if r is None:
            r = self._s[name] = random.Random(stream_seed(self.seed, name))
        return r

    def int_seed(self, name: str) -> int:
        return stream_seed(self.seed, name) & 0x7FFFFFFF
