"""Fork-per-run batch runner.

The parent imports and warms everything once (no threads alive), forks `nslots` slot processes, and every slot forks one
child per run, so each run starts from the identical pristine interpreter image: module-level caches, class attributes
and numba state never leak between runs and a result cannot depend on which slot ran which seed.

A child that exceeds its wall-clock watchdog or dies is reported as status='harness_error' (never ok, never violation).
Wall time is only measured here, outside the runs, for the evidence file."""
import os
import sys
import time
import pickle
import select
import signal
import struct
import traceback
import faulthandler


_IN_CHILD = False


def _write_all(fd, data: bytes):
    view = memoryview(data)
    while view:
        n = os.write(fd, view)
        view = view[n:]


def _read_exact(fd, n, deadline=None):
    buf = bytearray()
    while len(buf) < n:
        if deadline is not None:
            left = deadline - time.monotonic()
            if left <= 0:
                return None
            r, _, _ = select.select([fd], [], [], left)
            if not r:
                return None
        chunk = os.read(fd, n - len(buf))
        if not chunk:
            return bytes(buf) if buf else b''
        buf += chunk
    return bytes(buf)


def fork_call(fn, arg, timeout: float):
    """Run fn(arg) in a forked child; returns its (picklable) result or a harness_error dict."""
    global _IN_CHILD
    rfd, wfd = os.pipe()
    sys.stdout.flush()
    sys.stderr.flush()
    if _IN_CHILD:
        # nested use (a run that forks its phases): the watchdog thread of faulthandler must not be alive across fork()
        faulthandler.cancel_dump_traceback_later()
    pid = os.fork()
    if pid == 0:
        code = 0
        nested = _IN_CHILD
        _IN_CHILD = True
        try:
            os.close(rfd)
            faulthandler.enable()
            if not os.environ.get('VERIF_CHILD_STDOUT'):
                sys.stdout = open(os.devnull, 'w')  # the library prints diagnostics; results travel over the pipe
            if not nested:
                faulthandler.dump_traceback_later(max(1.0, timeout * 0.9), exit=False)
            try:
                res = fn(arg)
            except BaseException:
                res = {'status': 'harness_error', 'detail': 'exception in run: ' + traceback.format_exc()[-3000:]}
            faulthandler.cancel_dump_traceback_later()
            data = pickle.dumps(res, protocol=4)
            _write_all(wfd, struct.pack('<Q', len(data)) + data)
        except BaseException:
            code = 70
        finally:
            os._exit(code)
    os.close(wfd)
    deadline = time.monotonic() + timeout
    res = None
    try:
        hdr = _read_exact(rfd, 8, deadline)
        if hdr is None:
            res = {'status': 'harness_error', 'detail': f'watchdog: run exceeded {timeout}s wall'}
        elif len(hdr) < 8:
            res = {'status': 'harness_error', 'detail': 'child died without result'}
        else:
            (n,) = struct.unpack('<Q', hdr)
            data = _read_exact(rfd, n, deadline + 30)
            if data is None or len(data) < n:
                res = {'status': 'harness_error', 'detail': 'truncated result from child'}
            else:
                res = pickle.loads(data)
    finally:
        os.close(rfd)
        if res is not None and res.get('status') == 'harness_error':
            try:
                os.kill(pid, signal.SIGKILL)
            except ProcessLookupError:
                pass
        try:
            _, st = os.waitpid(pid, 0)
            if res is not None and res.get('status') == 'harness_error':
                res['detail'] += f' (wait status {st})'
        except ChildProcessError:
            pass
    return res


def _slot_main(fn, items, wfd, timeout, slot_init=None, slot_index=0):
    try:
        if slot_init is not None:
            slot_init(slot_index)
        for idx, arg in items:
            res = fork_call(fn, arg, timeout)
            data = pickle.dumps((idx, res), protocol=4)
            _write_all(wfd, struct.pack('<Q', len(data)) + data)
    finally:
        os._exit(0)


def run_many(fn, args, nslots=16, timeout=120.0, progress=None, wall_budget=None, slot_init=None):
    """Run fn(arg) for every arg, each in its own fork, spread over nslots slot processes (strided assignment).

    Returns results in the order of args. If wall_budget (seconds) is given, slots stop starting new runs after it; the
    runs not started are returned as None (the caller reports only completed runs)."""
    args = list(args)
    n = len(args)
    results = [None] * n
    if n == 0:
        return results
    nslots = max(1, min(nslots, n))
    t0 = time.monotonic()
    slots = []
    stop_r, stop_w = (None, None)
    if wall_budget is not None:
        stop_r, stop_w = os.pipe()
    sys.stdout.flush()
    sys.stderr.flush()
    for s in range(nslots):
        items = [(i, args[i]) for i in range(s, n, nslots)]
        rfd, wfd = os.pipe()
        pid = os.fork()
        if pid == 0:
            os.close(rfd)
            for r_other, _ in slots:
                os.close(r_other)
            if wall_budget is not None:
                os.close(stop_w)
                items = _BudgetIter(items, stop_r)
            _slot_main(fn, items, wfd, timeout, slot_init, s)
        os.close(wfd)
        slots.append((rfd, pid))
    if wall_budget is not None:
        os.close(stop_r)
    open_fds = {rfd: bytearray() for rfd, _ in slots}
    done = 0
    stopped = False
    while open_fds:
        to = 1.0
        r, _, _ = select.select(list(open_fds), [], [], to)
        if wall_budget is not None and not stopped and time.monotonic() - t0 > wall_budget:
            os.write(stop_w, b'x')
            stopped = True
        for fd in r:
            chunk = os.read(fd, 1 << 16)
            if not chunk:
                del open_fds[fd]
                os.close(fd)
                continue
            buf = open_fds[fd]
            buf += chunk
            while len(buf) >= 8:
                (ln,) = struct.unpack('<Q', bytes(buf[:8]))
                if len(buf) < 8 + ln:
                    break
                idx, res = pickle.loads(bytes(buf[8:8 + ln]))
                del buf[:8 + ln]
                results[idx] = res
                done += 1
                if progress is not None:
                    progress(done, n, res)
    for _, pid in slots:
        try:
            os.waitpid(pid, 0)
        except ChildProcessError:
            pass
    if wall_budget is not None:
        os.close(stop_w)
    return results


class _BudgetIter:
    """Iterates items until the parent signals (one byte on the stop pipe) that the wall budget is used up."""

    def __init__(self, items, stop_fd):
        self.items = items
        self.stop_fd = stop_fd

    def __iter__(self):
        for it in self.items:
            r, _, _ = select.select([self.stop_fd], [], [], 0)
            if r:
                return
            yield it
