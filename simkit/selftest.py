"""Self-tests of the machinery: determinism of every engine (same run seed => same log digest) across slot counts and,
where the scenario is hash-seed independent, across PYTHONHASHSEED values in fresh interpreters."""
import os
import sys
import json
import subprocess

from simkit import runner, driver
from simkit.rng import run_seed

ROOT = os.path.dirname(os.path.dirname(os.path.abspath(__file__)))


def _digests(mod, jobs, tier, nslots):
    res = runner.run_many(driver._job_fn, [(mod, j, tier) for j in jobs], nslots=nslots,
                          timeout=getattr(mod, 'RUN_TIMEOUT_S', 120.0), slot_init=getattr(mod, 'slot_init', None))
    return [(r or {}).get('digest') for r in res], [(r or {}).get('status') for r in res]


def determinism(mod, n, tier):
    if os.environ.get('VERIF_SELFTEST_CHILD'):
        mod.warmup()
        jobs = mod.jobs(tier, int(os.environ.get('VERIF_SEED') or 0))[:n]
        d, s = _digests(mod, jobs, tier, 7)
        print('DIGESTS ' + json.dumps(d))
        return 0
    mod.warmup()
    jobs = mod.jobs(tier, int(os.environ.get('VERIF_SEED') or 0))
    # take runs from every generator of the plan
    by_gen = {}
    for j in jobs:
        by_gen.setdefault(j['gen'], []).append(j)
    pick = []
    for g, js in by_gen.items():
        pick += js[:max(2, n // len(by_gen))]
    pick = pick[:n]
    d16, s16 = _digests(mod, pick, tier, 16)
    d5, s5 = _digests(mod, pick, tier, 5)
    bad = [i for i in range(len(pick)) if d16[i] != d5[i] or d16[i] is None]
    out = {'property': mod.PROPERTY, 'runs': len(pick), 'slots_16_vs_5_mismatches': len(bad),
           'statuses': {k: s16.count(k) for k in set(s16)}}
    # fresh interpreter, other hash seed (only meaningful if the check declares itself hash-seed independent)
    if getattr(mod, 'HASHSEED_INDEPENDENT', True):
        env = dict(os.environ, VERIF_SELFTEST_CHILD='1', VERIF_HASHSEED='1', VCHECK_REEXEC='0')
        r = subprocess.run([sys.executable, os.path.join(ROOT, 'bin', 'vcheck'), 'determinism', mod.PROPERTY, '--n',
                            str(len(pick)), '--tier', tier], env=env, capture_output=True, text=True, timeout=3600)
        line = next((ln for ln in r.stdout.splitlines() if ln.startswith('DIGESTS ')), None)
        if line is None:
            out['fresh_interpreter_hashseed1'] = 'failed: ' + (r.stdout + r.stderr)[-400:]
        else:
            # the child takes the first n jobs of the plan; compare on the common prefix of the first generator
            dchild = json.loads(line[8:])
            first = mod.jobs(tier, int(os.environ.get('VERIF_SEED') or 0))[:len(pick)]
            dref, _ = _digests(mod, first, tier, 16)
            mism = sum(1 for a, b in zip(dref, dchild) if a != b)
            out['fresh_interpreter_hashseed1_mismatches'] = mism
            out['fresh_interpreter_runs'] = len(dchild)
    os.makedirs(os.path.join(ROOT, 'selftest'), exist_ok=True)
    path = os.path.join(ROOT, 'selftest', 'determinism.json')
    old = json.load(open(path)) if os.path.exists(path) else {}
    old[mod.PROPERTY] = out
    json.dump(old, open(path, 'w'), indent=1)
    print(json.dumps(out))
    ok = not bad and not out.get('fresh_interpreter_hashseed1_mismatches')
    if not ok:
        print(f'HARNESS-NONDETERMINISM property={mod.PROPERTY}')
        return 3
    return 0
