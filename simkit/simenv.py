"""Engine E2: one thread, a simulated environment.

  * virtual limiter: `run_timeout` as imported into selector.py / graph_processor.py is rebound to `vlimiter`, which runs
    the function inline and lets the simulator either let it finish or kill it at delivery point k (an exception of the
    type a real worker receives, raised from a sys.monitoring callback at a genuine asynchronous-exception delivery
    point: function entry/resume, return from a C call, first line after a backward jump) - assume/guarantee: C19 is the
    contract of run_timeout, checked on the real limiter by engine E1;
  * memory faults: MemoryError raised at the return of an allocating numpy call inside a repo frame;
  * private cache directory per run (XDG_CACHE_HOME), seeded random / np.random."""
import os
import sys
import shutil
import random
import tempfile

mon = sys.monitoring
EV = mon.events
TOOL = 3
_ready = False
_repo_prefix = None


class Interrupt(SystemError):
    """What the worker of a timed-out run_timeout receives on this interpreter (probed: SystemError)."""


class _Call:
    __slots__ = ('idx', 'site', 'n', 'kill_at', 'token', 'killed')

    def __init__(self, idx, site, kill_at):
        self.idx = idx
        self.site = site
        self.n = 0
        self.kill_at = kill_at
        self.token = None
        self.killed = False


class State:
    stack = []  # active vlimiter calls, innermost last (only the innermost counts delivery points)
    calls = []  # log of finished calls: (idx, site, points seen, outcome)
    plan = None  # callable(idx, site) -> kill point or None
    back = False
    mem_plan = None  # {'at': n} -> raise MemoryError at the n-th allocation event; counts in mem_seen
    mem_seen = 0
    mem_fired = 0
    armed = False
    record = None  # list collecting (point number, function name) of the outermost limited call (dry runs)
    budget = 250000  # delivery points after which a limited call is killed anyway (the virtual time limit)


def _point(code):
    st = State.stack
    if not st:
        return
    c = st[-1]
    c.n += 1
    if State.record is not None and len(st) == 1:
        State.record.append((c.n, code.co_name))
    if (c.kill_at is not None and c.n == c.kill_at and not c.killed) or (c.n >= State.budget and not c.killed):
        c.killed = True
        e = Interrupt('vlimiter kill')
        c.token = e
        raise e


def _in_repo(code):
    return code.co_filename.startswith(_repo_prefix)


def _cb_start(code, off):
    if not _in_repo(code):
        return mon.DISABLE
    if State.stack:
        _point(code)


_ALLOC_NAMES = {'zeros', 'ones', 'empty', 'array', 'repeat', 'row_stack', 'vstack', 'column_stack', 'concatenate',
                'zeros_like', 'ones_like', 'empty_like', 'tile', 'arange', 'full', 'copy', 'cumsum', 'unique', 'where'}


def _cb_cret(code, off, callable_, arg0):
    if not _in_repo(code):
        return
    mp = State.mem_plan
    if mp is not None:
        name = getattr(callable_, '__name__', None)
        if name in _ALLOC_NAMES:
            State.mem_seen += 1
            if State.mem_seen == mp['at']:
                State.mem_fired += 1
                State.mem_plan = None
                raise MemoryError('injected allocation failure')
    if State.stack:
        _point(code)


def _cb_call(code, off, callable_, arg0):
    if not _in_repo(code):
        return mon.DISABLE


def _cb_jump(code, off, dest):
    if not _in_repo(code):
        return mon.DISABLE
    if dest < off:
        State.back = True  # only mark: raising from a JUMP callback skips handlers (interpreter defect)


def _cb_line(code, ln):
    if not _in_repo(code):
        return mon.DISABLE
    if State.back:
        State.back = False
        if State.stack:
            _point(code)


def setup(repo_dir):
    """Register the monitoring callbacks (events are only switched on while a limited call or a memory plan is live)."""
    global _ready, _repo_prefix
    _repo_prefix = os.path.join(os.path.realpath(repo_dir), 'adsg_core') + os.sep
    if _ready:
        return
    mon.use_tool_id(TOOL, 'simenv')
    mon.register_callback(TOOL, EV.PY_START, _cb_start)
    mon.register_callback(TOOL, EV.PY_RESUME, _cb_start)
    mon.register_callback(TOOL, EV.C_RETURN, _cb_cret)
    mon.register_callback(TOOL, EV.CALL, _cb_call)
    mon.register_callback(TOOL, EV.JUMP, _cb_jump)
    mon.register_callback(TOOL, EV.LINE, _cb_line)
    _ready = True


def _arm():
    if not State.armed:
        mon.set_events(TOOL, EV.PY_START | EV.PY_RESUME | EV.CALL | EV.JUMP | EV.LINE)
        State.armed = True


def _disarm():
    if State.armed and not State.stack and State.mem_plan is None:
        mon.set_events(TOOL, 0)
        State.armed = False


def vlimiter(seconds, func, *args, **kwargs):
    """Stand-in for run_timeout(seconds, func, ...): returns func's value, re-raises its exception, or - if the plan says
    so - kills it at a delivery point and raises TimeoutError. Logs (idx, site, points, outcome)."""
    idx = len(State.calls) + len(State.stack)
    fr = sys._getframe(1)
    site = f'{os.path.basename(fr.f_code.co_filename)}:{fr.f_code.co_name}:{getattr(func, "__name__", "?")}'
    action = State.plan(idx, site) if State.plan is not None else None
    if isinstance(action, tuple) and action[0] == 'raise':
        # the limited function "raises at once": run_timeout re-raises a function's own exception
        State.calls.append((idx, site, 0, 'injected:' + getattr(action[1], '__name__', 'exception')))
        raise action[1]('injected candidate rejection')
    kill_at = action
    c = _Call(idx, site, kill_at)
    State.stack.append(c)
    State.back = False
    _arm()
    try:
        r = func(*args, **kwargs)
        outcome = 'ok'
        return r
    except Interrupt as e:
        if e is c.token:
            outcome = 'killed'
            raise TimeoutError from None
        outcome = 'interrupted-by-outer'
        raise
    except BaseException as e:
        outcome = 'raised:' + type(e).__name__
        raise
    finally:
        State.stack.pop()
        State.calls.append((idx, site, c.n, outcome))
        _disarm()


def count_points(func, *args, **kwargs):
    """Run func under a limiter that never kills; returns (result or exception, number of delivery points seen)."""
    saved = State.plan
    State.plan = None
    try:
        try:
            r = vlimiter(0, func, *args, **kwargs)
        except BaseException as e:  # noqa
            r = e
    finally:
        State.plan = saved
    return r, State.calls[-1][2]


def install_limiter():
    import adsg_core.optimization.graph_processor as gp
    import adsg_core.optimization.assign_enc.selector as sel
    import adsg_core.optimization.assign_enc.time_limiter as tl
    gp.run_timeout = vlimiter
    sel.run_timeout = vlimiter
    tl.run_timeout = vlimiter  # also covers callers that reach the limiter through the module attribute


def reset(plan=None):
    State.stack = []
    State.calls = []
    State.plan = plan
    State.back = False
    State.mem_plan = None
    State.mem_seen = 0
    State.mem_fired = 0
    State.record = None
    _disarm()


def plan_memfault(at):
    State.mem_plan = {'at': at}
    State.mem_seen = 0
    _arm()


def clear_memfault():
    State.mem_plan = None
    _disarm()


# ---------------------------------------------------------------------------------------------------------------------
# run environment

class RunEnv:
    """Private cache directory + seeded library randomness for one run (context manager)."""

    def __init__(self, seed):
        self.seed = seed
        self.dir = None

    def __enter__(self):
        import numpy as np
        base = os.environ.get('VSIM_BASE')  # set by bin/vcheck: removed as a whole when the command ends
        if not base or not os.path.isdir(base):
            base = '/dev/shm' if os.path.isdir('/dev/shm') and os.access('/dev/shm', os.W_OK) else None
        self.dir = tempfile.mkdtemp(prefix='vsim-', dir=base)
        os.environ['XDG_CACHE_HOME'] = self.dir
        random.seed(self.seed)
        np.random.seed(self.seed & 0x7FFFFFFF)
        return self

    def __exit__(self, *a):
        shutil.rmtree(self.dir, ignore_errors=True)
        return False
