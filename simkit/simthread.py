"""Engine E1: real Python threads, scheduled by the simulator (baton passing), virtual discrete-event clock.

The code under test (`time_limiter.run_timeout`, `multiprocessing.pool`) runs unmodified on real threads and uses the
real `PyThreadState_SetAsyncExc`. What the simulator owns is (a) which thread runs next - every thread but one is parked
on a private gate lock, (b) the clock, (c) the blocking primitives handed to the pool code through module-level shims.

Yield points are CPython's own switch / async-exception delivery points: PY_START, PY_RESUME, return from a C call, and
the first LINE after a backward JUMP, for the code objects that were armed; plus every simulated blocking primitive."""
import sys
import time as _real_time
import types
import _thread
import hashlib
import threading
import collections
import queue as _queue
import multiprocessing.pool as mpool
import multiprocessing.dummy as mdummy
from multiprocessing.connection import wait as _real_wait

__all__ = ['Sim', 'SimAbort', 'install', 'uninstall', 'arm', 'current', 'activate', 'deactivate']

SIM = None  # the one active simulation of this process


class SimAbort(BaseException):
    """Raised in the main simulated thread when the run is aborted (deadlock, step cap, time cap)."""


class Rec:
    __slots__ = ('name', 'gate', 'state', 'pred', 'deadline', 'timed_out', 'prio', 'ident', 'why', 'n_yield')

    def __init__(self, name):
        self.name = name
        self.gate = _thread.allocate_lock()
        self.gate.acquire()
        self.state = 'runnable'  # runnable | blocked | done
        self.pred = None
        self.deadline = None
        self.timed_out = False
        self.prio = 0.0
        self.ident = None
        self.why = ''
        self.n_yield = 0


class Sim:
    def __init__(self, rng, policy=('uniform',), schedule=None, step_cap=20000, time_cap=10000.0):
        self.rng = rng
        self.policy = policy
        self.replay = list(schedule) if schedule is not None else None  # explicit decisions (names or None)
        self.replay_pos = 0
        self.decisions = []  # recorded: chosen thread name wherever > 1 thread was enabled, else omitted
        self.now = 0.0
        self.recs = {}  # ident -> Rec
        self.order = []  # Recs in creation order
        self.cur = None
        self.main = None
        self.steps = 0
        self.step_cap = step_cap
        self.time_cap = time_cap
        self.names = collections.Counter()
        self.log = []
        self.aborted = None
        self.seq = 0  # global event sequence number
        self.stats = collections.Counter()
        self.frozen = set()  # Recs a scenario hook holds back
        self.force_next = None  # Rec that must run next if enabled (set by a hook: enumerated expiry position)
        self.hooks = []  # callables(sim, rec, kind) run at yield points of the current thread (expiry forcing etc.)
        self.noyield = 0  # > 0 while the current thread is inside a section of the simulator itself that must not switch
        self.interleave = hashlib.sha256()
        if policy[0] == 'pct':
            self._pct_points = sorted(rng.randrange(1, max(2, policy[2])) for _ in range(max(0, policy[1] - 1)))
        else:
            self._pct_points = []

    # -- logging (never draws from a PRNG, never reads a clock)
    def event(self, kind, *info):
        self.seq += 1
        me = self.me()
        self.log.append((self.seq, me.name if me else '?', kind) + info)
        return self.seq

    def digest(self):
        h = hashlib.sha256()
        for e in self.log:
            h.update(repr(e).encode())
        return h.hexdigest()

    # -- threads
    def me(self):
        return self.recs.get(_thread.get_ident())

    def register_main(self):
        r = Rec('main')
        r.ident = _thread.get_ident()
        self.recs[r.ident] = r
        self.order.append(r)
        self.cur = r
        self.main = r
        r.prio = self.rng.random()
        return r

    def new_rec(self, base):
        self.names[base] += 1
        r = Rec(f'{base}#{self.names[base]}')
        r.prio = self.rng.random()
        self.order.append(r)
        return r

    # -- scheduling
    def _enabled(self):
        out = []
        for r in self.order:
            if r in self.frozen:
                continue  # held back by a scenario hook (e.g. between a forced expiry and the delivery of the interrupt)
            if r.state == 'runnable':
                out.append(r)
            elif r.state == 'blocked':
                if r.pred():
                    out.append(r)
                elif r.deadline is not None and r.deadline <= self.now:
                    out.append(r)
        return out

    def _abort(self, why):
        if self.aborted is None:
            self.aborted = why
            self.log.append((self.seq, '-', 'abort', why))

    def _choose(self, en, me):
        if len(en) == 1:
            if self.force_next is en[0]:
                self.force_next = None
            return en[0]
        names = [r.name for r in en]
        chosen = None
        if self.force_next is not None:
            fn, self.force_next = self.force_next, None
            if fn in en:
                return fn
        if self.replay is not None:
            want = self.replay[self.replay_pos] if self.replay_pos < len(self.replay) else None
            self.replay_pos += 1
            if want is not None and want in names:
                chosen = en[names.index(want)]
            elif me is not None and me in en:
                chosen = me  # default decision: keep running the current thread
            else:
                chosen = en[0]
        else:
            p = self.policy
            if p[0] == 'uniform':
                chosen = en[self.rng.randrange(len(en))]
            elif p[0] == 'sticky':
                if me is not None and me in en and self.rng.random() < p[1]:
                    chosen = me
                else:
                    chosen = en[self.rng.randrange(len(en))]
            elif p[0] == 'pct':
                while self._pct_points and self._pct_points[0] <= self.steps:
                    self._pct_points.pop(0)
                    top = max(en, key=lambda r: r.prio)
                    top.prio = -self.rng.random()  # demote the currently strongest thread
                chosen = max(en, key=lambda r: r.prio)
            else:
                raise ValueError(p)
        default = me if (me is not None and me in en) else en[0]
        self.decisions.append(chosen.name if chosen is not default else None)
        return chosen

    def _pick(self, me):
        """Choose the next thread to run; advances the clock when nothing is enabled. Returns a Rec."""
        if self.aborted:
            return self.main
        while True:
            en = self._enabled()
            if en:
                break
            dl = [r.deadline for r in self.order if r.state == 'blocked' and r.deadline is not None]
            if not dl:
                self._abort('deadlock:' + ','.join(f'{r.name}={r.state}/{r.why}' for r in self.order if r.state != 'done'))
                return self.main
            self.now = min(dl)
            self.log.append((self.seq, '-', 'clock', self.now))
            if self.now > self.time_cap:
                self._abort('time-cap')
                return self.main
        self.steps += 1
        if self.steps > self.step_cap:
            self._abort('step-cap')
            return self.main
        r = self._choose(en, me if (me is not None and me.state != 'done') else None)
        if r.state == 'blocked':
            r.timed_out = not r.pred()
            r.state = 'runnable'
        self.interleave.update(r.name.encode() + b';')
        return r

    def _switch(self, me):
        nxt = self._pick(me)
        if nxt is not me:
            self.cur = nxt
            nxt.gate.release()
            me.gate.acquire()  # parked; an asynchronous exception set meanwhile is raised right after this returns
        if self.aborted and me is self.main:
            raise SimAbort(self.aborted)

    def yield_point(self, kind='y'):
        me = self.me()
        if me is None or self.cur is not me or me.state == 'done' or self.noyield:
            return
        if self.aborted:
            if me is self.main:
                raise SimAbort(self.aborted)
            me.gate.acquire()  # park for good
        me.n_yield += 1
        for h in self.hooks:
            h(self, me, kind)
        self._switch(me)

    def block_until(self, pred, timeout=None, why=''):
        me = self.me()
        if me is None:
            raise RuntimeError('simulated primitive used by a thread the simulator does not know')
        if self.aborted:
            if me is self.main:
                raise SimAbort(self.aborted)
            me.gate.acquire()
        if pred():
            self.yield_point('b')
            return True
        if timeout is not None and timeout <= 0:
            self.yield_point('b')
            return bool(pred())
        me.pred = pred
        me.deadline = None if timeout is None else self.now + timeout
        me.state = 'blocked'
        me.timed_out = False
        me.why = why
        self._switch(me)
        me.why = ''
        return not me.timed_out

    def sleep(self, d, why='sleep'):
        self.block_until(lambda: False, d, why)

    def thread_exit(self):
        me = self.me()
        me.state = 'done'
        self.log.append((self.seq, me.name, 'exit'))
        nxt = self._pick(None)
        self.cur = nxt
        nxt.gate.release()

    def alive_names(self):
        return [r.name for r in self.order if r.state != 'done']


def current():
    return SIM


def activate(sim):
    global SIM
    SIM = sim


def deactivate():
    global SIM
    SIM = None


# ---------------------------------------------------------------------------------------------------------------------
# simulated primitives handed to multiprocessing.pool

class SimEvent:
    def __init__(self):
        self._f = False

    def is_set(self):
        return self._f

    isSet = is_set

    def set(self):
        self._f = True
        SIM.yield_point('set')

    def clear(self):
        self._f = False

    def wait(self, timeout=None):
        SIM.block_until(lambda: self._f, timeout, 'event')
        return self._f


class SimLock:
    def __init__(self):
        self._owner = None

    def acquire(self, blocking=True, timeout=-1):
        if not blocking:
            if self._owner is None:
                self._owner = SIM.me()
                return True
            return False
        ok = SIM.block_until(lambda: self._owner is None, None if timeout is None or timeout < 0 else timeout, 'lock')
        if ok and self._owner is None:
            self._owner = SIM.me()
            return True
        return False

    def release(self):
        self._owner = None
        SIM.yield_point('rel')

    def locked(self):
        return self._owner is not None

    __enter__ = acquire

    def __exit__(self, *a):
        self.release()


class SimCondition:
    def __init__(self, lock=None):
        self._lock = lock or SimLock()
        self._gen = 0
        self.acquire = self._lock.acquire
        self.release = self._lock.release

    def __enter__(self):
        return self._lock.__enter__()

    def __exit__(self, *a):
        return self._lock.__exit__(*a)

    def wait(self, timeout=None):
        g = self._gen
        self._lock._owner = None
        ok = SIM.block_until(lambda: self._gen != g, timeout, 'cond')
        self._lock.acquire()
        return ok

    def notify(self, n=1):
        self._gen += 1

    def notify_all(self):
        self._gen += 1


class SimQueue:
    """queue.SimpleQueue as used by ThreadPool (_inqueue, _outqueue, _taskqueue)."""

    def __init__(self):
        self.q = collections.deque()

    def put(self, x, block=True, timeout=None):
        self.q.append(x)
        SIM.yield_point('put')

    def get(self, block=True, timeout=None):
        if not block:
            if not self.q:
                raise _queue.Empty
            return self.q.popleft()
        while True:
            ok = SIM.block_until(lambda: len(self.q) > 0, timeout, 'queue')
            if self.q:
                return self.q.popleft()
            if timeout is not None:
                raise _queue.Empty  # timed get: gave up (or another consumer was faster and the time is used up)
            # untimed get whose item was taken by another consumer in the meantime: keep waiting, as the real queue does

    def empty(self):
        return not self.q

    def qsize(self):
        return len(self.q)


class _SimThreadMixin:
    def _sim_start(self):
        sim = SIM
        tgt = getattr(self, '_target', None)
        base = getattr(tgt, '__name__', None) or type(self).__name__
        rec = sim.new_rec(base.lstrip('_'))
        self._rec = rec
        orig_run = self.run

        def run():
            rec.ident = _thread.get_ident()
            sim.recs[rec.ident] = rec
            rec.gate.acquire()  # born parked
            try:
                orig_run()
            except BaseException as e:  # the thread dies from an exception (also: an injected interrupt)
                sim.log.append((sim.seq, rec.name, 'died', type(e).__name__))
                sim.stats['thread_died:' + type(e).__name__] += 1
                died = getattr(sim, 'died', None)
                if died is not None:
                    died.append((rec.name, type(e).__name__))
            finally:
                sim.thread_exit()

        self.run = run
        sim.event('spawn', rec.name)
        # no switch point inside the real Thread.start: a garbage-collected object's __del__ (e.g. Pool.__del__, armed
        # Python code) may run right here, and parking the starter in the middle of the start handshake deadlocks
        sim.noyield += 1
        try:
            threading.Thread.start(self)
            while rec.ident is None:  # real, brief: the child registers itself and parks
                _real_time.sleep(0)
        finally:
            sim.noyield -= 1
        sim.yield_point('spawn')

    def join(self, timeout=None):
        rec = self._rec
        SIM.block_until(lambda: rec.state == 'done', timeout, 'join:' + rec.name)
        if rec.state == 'done':
            threading.Thread.join(self)

    def is_alive(self):
        rec = getattr(self, '_rec', None)
        if rec is None:
            return False
        return rec.state != 'done'


class SimThread(_SimThreadMixin, threading.Thread):
    def start(self):
        self._sim_start()


class SimDummy(_SimThreadMixin, mdummy.DummyProcess):
    def start(self):
        self._start_called = True
        if hasattr(self._parent, '_children'):
            self._parent._children[self] = None
        self._sim_start()


class _Shim(types.SimpleNamespace):
    def __init__(self, real, **kw):
        super().__init__(**kw)
        self.__dict__['_real'] = real

    def __getattr__(self, name):
        return getattr(self.__dict__['_real'], name)


def sim_wait(sentinels, timeout=None):
    SIM.block_until(lambda: bool(_real_wait(sentinels, 0)), timeout, 'pipe-wait')
    return _real_wait(sentinels, 0)


_saved = {}


def install():
    """Bind the simulated primitives into multiprocessing.pool / multiprocessing.dummy (module-level seams)."""
    if _saved:
        return
    _saved.update(threading=mpool.threading, queue=mpool.queue, wait=mpool.wait, time=mpool.time,
                  Process=mdummy.Process)
    mpool.threading = _Shim(threading, Thread=SimThread, Event=SimEvent, Lock=SimLock, Condition=SimCondition)
    mpool.queue = _Shim(_queue, SimpleQueue=SimQueue)
    mpool.wait = sim_wait
    mpool.time = _Shim(_real_time, sleep=lambda d: SIM.sleep(d, 'pool-sleep'))
    mdummy.Process = SimDummy


def uninstall():
    if not _saved:
        return
    mpool.threading = _saved['threading']
    mpool.queue = _saved['queue']
    mpool.wait = _saved['wait']
    mpool.time = _saved['time']
    mdummy.Process = _saved['Process']
    _saved.clear()


# ---------------------------------------------------------------------------------------------------------------------
# yield points from sys.monitoring

mon = sys.monitoring
EV = mon.events
TOOL = 4
_back = set()
_mon_ready = False


_prefix = None  # with arm_prefix(): only code objects of files under this prefix are switch points (global events)


def _cb_start(code, off):
    if _prefix is not None and not code.co_filename.startswith(_prefix):
        return mon.DISABLE
    s = SIM
    if s is not None:
        s.yield_point('start')


def _cb_cret(code, off, c, a):
    if _prefix is not None and not code.co_filename.startswith(_prefix):
        return
    s = SIM
    if s is not None:
        s.yield_point('cret')


def _cb_call(code, off, c, a):
    if _prefix is not None and not code.co_filename.startswith(_prefix):
        return mon.DISABLE


def _cb_jump(code, off, dest):
    if _prefix is not None and not code.co_filename.startswith(_prefix):
        return mon.DISABLE
    if dest < off:
        _back.add(_thread.get_ident())  # only mark: raising from a JUMP callback skips handlers (interpreter defect)


def _cb_line(code, ln):
    if _prefix is not None and not code.co_filename.startswith(_prefix):
        return mon.DISABLE
    t = _thread.get_ident()
    if t in _back:
        _back.discard(t)
        s = SIM
        if s is not None:
            s.yield_point('back')


def _setup_monitoring():
    global _mon_ready
    if _mon_ready:
        return
    mon.use_tool_id(TOOL, 'simthread')
    mon.register_callback(TOOL, EV.PY_START, _cb_start)
    mon.register_callback(TOOL, EV.PY_RESUME, _cb_start)
    mon.register_callback(TOOL, EV.C_RETURN, _cb_cret)
    mon.register_callback(TOOL, EV.C_RAISE, _cb_cret)
    mon.register_callback(TOOL, EV.JUMP, _cb_jump)
    mon.register_callback(TOOL, EV.LINE, _cb_line)
    mon.register_callback(TOOL, EV.CALL, _cb_call)
    _mon_ready = True


def arm(code):
    """Make every switch point of this code object (and nested ones) a scheduling point."""
    _setup_monitoring()
    mon.set_local_events(TOOL, code, EV.PY_START | EV.PY_RESUME | EV.CALL | EV.JUMP | EV.LINE)
    for c in code.co_consts:
        if isinstance(c, types.CodeType):
            arm(c)


def arm_prefix(prefix, c_raise=True):
    """Every switch point of every code object whose file lies under `prefix` becomes a scheduling point (the same set
    of points the virtual limiter of engine E2 counts)."""
    global _prefix
    _setup_monitoring()
    _prefix = prefix
    if not c_raise:
        mon.register_callback(TOOL, EV.C_RAISE, None)
    mon.set_events(TOOL, EV.PY_START | EV.PY_RESUME | EV.CALL | EV.JUMP | EV.LINE)


def arm_module_functions(module, names=None):
    for k, v in vars(module).items():
        if names is not None and k not in names:
            continue
        if isinstance(v, types.FunctionType):
            arm(v.__code__)
        elif isinstance(v, type):
            for kk, vv in vars(v).items():
                f = vv.__func__ if isinstance(vv, (staticmethod, classmethod)) else vv
                if isinstance(f, types.FunctionType):
                    arm(f.__code__)
