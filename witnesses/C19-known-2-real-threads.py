import sys, threading, time, faulthandler
sys.path.insert(0, sys.argv[1] if len(sys.argv) > 1 else '/repo')
import multiprocessing.pool as mpool
from adsg_core.optimization.assign_enc.time_limiter import run_timeout
faulthandler.dump_traceback_later(8, exit=True)
orig_exit = mpool.Pool.__exit__
n = [0]
def patched_exit(self, *a):
    n[0] += 1
    if n[0] == 1:
        # the enclosing limiter's asynchronous interrupt is delivered at the first delivery point of the inner pool's
        # __exit__ (a legal place: the waiting thread is then running run_timeout's own clean-up code)
        raise SystemError('interrupt of the enclosing limiter (injected at a delivery point inside clean-up)')
    return orig_exit(self, *a)
mpool.Pool.__exit__ = patched_exit
def slow():
    t = time.time()
    while time.time() - t < 1.0:
        pass
    return 'done'
t0 = time.time()
try:
    print('result', run_timeout(0.2, slow))
except BaseException as e:
    print('raised', type(e).__name__, 'after %.2f s' % (time.time() - t0))
print('threads left:', [t.name for t in threading.enumerate()])
